#!/bin/bash
# Builds what the checks need from files on disk only (offline): byte-compile the harness, parse every specification.
cd "$(dirname "$0")"
set -e
/venv/bin/python -m compileall -q xv xvschema >/dev/null
mkdir -p evidence replays .work
for m in spec/*.tla; do
  (cd spec && tla-sany "$(basename $m)" > /tmp/sany.$$ 2>&1) || { cat /tmp/sany.$$; rm -f /tmp/sany.$$; exit 1; }
  if grep -q "\*\*\* Errors" /tmp/sany.$$; then cat /tmp/sany.$$; rm -f /tmp/sany.$$; exit 1; fi
done
rm -f /tmp/sany.$$
PYTHONPATH=/repo/src:/verif XPM_VERIF=1 /venv/bin/python -W ignore -c "import xv.e1" 
echo setup ok
