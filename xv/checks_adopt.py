"""XpmAdopt: TLC on the look-up race + replay of every exported behaviour (and, thorough, of every placement) on the real scheduler"""
import json
from concurrent.futures import ProcessPoolExecutor

from . import adopt, tlc, ws


def _w(case):
    try:
        return adopt.one(case)
    except Exception as e:  # noqa
        return {"case": case, "machinery": repr(e)[:300]}


def _init():
    import os
    import sys

    sys.stderr = open(os.devnull, "w")


def run(rep, prop, tier):
    ok, out = tlc.sany("XpmAdopt.tla")
    if not ok:
        rep.machinery_failure("SANY rejects XpmAdopt: " + out[-400:])
        return
    mc = tlc.tlc("XpmAdopt.tla", "MC_Adopt_launching.cfg", workers=1, timeout=600)
    rep.add_tlc("MC_Adopt_launching", mc, "every interleaving of the scheduler's accesses (marker, pid file, process table, wait, marker) with the last steps "
                                          "of the orphan, or with another scheduler that is launching the job (pid file absent, empty, written)")
    if mc.violation:
        rep.violation(f"{prop}/model/adopt/{mc.violation[1]}", f"TLC: {mc.violation} in MC_Adopt_launching", {"tlc_tail": mc.out[-2000:]})
        return
    if mc.error:
        rep.machinery_failure("TLC failed on MC_Adopt_launching: " + str(mc.error))
        return
    for cfg, inv in (("MC_Adopt_nosecond.cfg", "NoRelaunchOfSuccess"), ("MC_Adopt_unguarded.cfg", "NoCrash"), ("MC_Adopt_launching_unguarded.cfg", "NoCrash")):
        r = tlc.tlc("XpmAdopt.tla", cfg, workers=1, timeout=600)
        rep.add_tlc(cfg[:-4], r, f"deviation kept as a constant: {inv} must fail (the invariant is not vacuous)")
        if not (r.violation and r.violation[1] == inv):
            rep.machinery_failure(f"{cfg}: expected a violation of {inv}, got {r.violation or r.error}")
    behs = [b for b in ws.parse_behaviours(mc.out)]
    if len(behs) < 400:
        rep.machinery_failure(f"TLC exported {len(behs)} behaviours of XpmAdopt")
        return
    cases = [{"out": b["out"], "start": b["hist"][0], "plan": adopt.plan_of(b["hist"]), "want": b["decision"], "labels": adopt.labels_of(b["hist"])} for b in behs]
    # the same behaviours with an orphan that is suspended (SIGSTOP) when the experiment is run again: it exists, so it is adopted
    cases += [dict(c, stopped=True) for c in cases if c["start"] == "run"]
    # ... and with an orphan that stays in its body during the whole look-up, whatever the accesses are (it only ends once
    # the scheduler waits for it): it must be adopted
    for o in ("ok", "fail"):
        for st in (False, True):
            cases.append({"out": o, "start": "run", "plan": [None] * 12 + adopt.JSTEPS[o], "stopped": st, "want": None, "labels": None})
    if tier == "thorough":
        # every placement of the orphan's steps over the accesses the code makes (n = longest sequence of the model + 2)
        n = max(len(c["labels"]) for c in cases if c["labels"] is not None) + 2
        seen = {(c["out"], c["start"], json.dumps(c["plan"])) for c in cases}
        for o in ("ok", "fail", "killed"):
            for plan in adopt.placements(o, n):
                if (o, "run", json.dumps(plan)) not in seen:
                    cases.append({"out": o, "start": "run", "plan": plan, "want": None, "labels": None})
    with ProcessPoolExecutor(max_workers=12, initializer=_init) as ex:
        obs = list(ex.map(_w, cases, chunksize=2))
    deviations = []
    kinds = set()
    for c, ob in zip(cases, obs):
        if "machinery" in ob:
            rep.machinery_failure("adopt harness: " + ob["machinery"])
            continue
        rep.cov["evaluations"] += 1
        bad = adopt.judge(ob)
        for clause, text in bad:
            if clause not in kinds:
                kinds.add(clause)
                rep.violation(f"{prop}/adopt/{clause}", text, {"adopt": {k: c[k] for k in ("out", "start", "plan", "stopped") if k in c}, "observed": {k: ob[k] for k in ob if k != "case"}})
        if not bad:
            rep.cov["traces_validated_against_impl"] += 1
        if c["labels"] is not None:
            if ob["accesses"] != c["labels"]:
                deviations.append({"plan": c["plan"], "out": c["out"], "spec": c["labels"], "code": ob["accesses"]})
            elif adopt.decision_of(ob) != c["want"] and not bad:
                deviations.append({"plan": c["plan"], "out": c["out"], "spec_decision": c["want"], "code_decision": adopt.decision_of(ob)})
    rep.cov.setdefault("adopt", {})
    rep.cov["adopt"] = {"behaviours": len(behs), "cases": len(cases), "model_deviations": len(deviations), "first_deviation": deviations[:1]}
    if deviations:
        print(f"note: {len(deviations)} behaviours of XpmAdopt are not what the code does (accesses or decision); judged by the invariants only; first: {deviations[0]}")


def replay(rep, prop, payload):
    c = payload["adopt"]
    ob = adopt.one({k: c[k] for k in ("out", "start", "plan", "stopped") if k in c})
    rep.cov["evaluations"] += 1
    for clause, text in adopt.judge(ob):
        rep.violation(f"{prop}/adopt/{clause}", text, {"adopt": c, "observed": {k: ob[k] for k in ob if k != "case"}})
    print(json.dumps(ob, indent=1))
