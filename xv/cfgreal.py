"""Real configuration objects for an abstract graph of XpmConfig.tla, and the tap on the identifier stream"""
import os

os.environ["XPM_VERIF"] = "1"
import hashlib
import random
from pathlib import Path

from experimaestro import setmeta
from experimaestro.core.objects import ConfigInformation, HashComputer
from experimaestro.utils import verif as _verif
from experimaestro.xpmutils import DirectoryContext

from xvschema import cfg as S

CLS = {"K": S.K, "K2": S.K2, "K2Old": S.K2Old, "K2Older": S.K2Older, "V": S.V, "LW": S.LW, "T": S.T, "T0": S.T0, "T1": S.T1, "G": S.G,
       "PX": S.PX, "QX": S.QX, "N": S.N, "DH": S.DH, "GF": S.GF, "OD": S.OD, "MD": S.MD}


def pyval(v, objs):
    t = v[0]
    if t == "none":
        return None
    if t == "int":
        return v[1]
    if t == "float":
        return float(v[1])
    if t == "str":
        return v[1]
    if t == "enum":
        return S.Color[v[1]]
    if t == "cfg":
        return objs[v[1]]
    if t == "list":
        return [pyval(x, objs) for x in v[1]]
    if t == "dict":
        return {k: pyval(x, objs) for k, x in v[1]}
    raise ValueError(v)


def cfg_nodes(v):
    if v[0] == "cfg":
        yield v[1]
    elif v[0] == "list":
        for x in v[1]:
            yield from cfg_nodes(x)
    elif v[0] == "dict":
        for _, x in v[1]:
            yield from cfg_nodes(x)


def has_cfg(v):
    return v[0] == "cfg" or (v[0] == "list" and any(has_cfg(x) for x in v[1])) or (v[0] == "dict" and any(has_cfg(x) for _, x in v[1]))


def maybe_tag(v, declared, rng):
    """Tags do not enter identifiers; a tagged value may arrive with another Python type than the declared one"""
    from experimaestro import tag

    if rng is None or rng.random() > 0.15:
        return v
    if declared == "float" and float(v).is_integer() and rng.random() < 0.5:
        return tag(int(v))
    if declared == "int" and rng.random() < 0.5:
        return tag(float(v))
    return tag(v)


def build(graph, rng=None, shuffle_dicts=False):
    """graph: {node: {cls, vals, meta, pre, init, task[, dflt]}} -> {node: config object}.
    A node flagged `dflt` is not constructed: it is the copy of a configuration-valued default that its (only)
    parent received; `dflt` = "edited" assigns its values in place afterwards."""
    objs = {}
    order = [n for n in graph if not graph[n].get("dflt")]
    dflt_parent = {}
    given_at = {}
    if rng:
        rng.shuffle(order)
    for n in order:
        spec = graph[n]
        args = CLS[spec["cls"]].__getxpmtype__().arguments
        kw = {}
        for a, v in spec["vals"].items():
            if has_cfg(v) or v[0] == "none" or args[a].constant or args[a].generator:
                continue
            val = pyval(v, objs)
            if v[0] in ("int", "float") and isinstance(val, (int, float)):
                val = maybe_tag(val, v[0], rng)
                if rng is not None and v[0] == "int" and type(val) is int and abs(val) < 2**31 and rng.random() < 0.15:
                    val = float(val)          # an integral float is an int for an int parameter
            kw[a] = val
        given = set()
        if rng and rng.random() < 0.7:
            # configuration-valued parameters whose values exist already are given to the constructor as well
            for a, v in spec["vals"].items():
                if has_cfg(v) and not args[a].constant and not args[a].generator and all(
                        m in objs and not graph[m].get("dflt") for m in cfg_nodes(v)) and not shuffle_dicts:
                    kw[a] = pyval(v, objs)
                    given.add(a)
        given_at[n] = given
        if rng:
            items = list(kw.items())
            rng.shuffle(items)
            kw = dict(items)
        objs[n] = CLS[spec["cls"]](**kw)
        for a, v in spec["vals"].items():
            if v[0] == "cfg" and graph[v[1]].get("dflt") and hasattr(args[a].default, "__xpm__"):
                dflt_parent[v[1]] = (n, a)
    for m, (n, a) in dflt_parent.items():
        objs[m] = getattr(objs[n], a)
    for m in dflt_parent:
        if graph[m]["dflt"] == "edited":
            margs = CLS[graph[m]["cls"]].__getxpmtype__().arguments
            for a2, v2 in graph[m]["vals"].items():
                if not margs[a2].constant and not margs[a2].generator:
                    setattr(objs[m], a2, pyval(v2, objs))
    for n in order:
        spec = graph[n]
        later = list(spec["vals"].items())
        if rng:
            rng.shuffle(later)        # (the order in which the parameters are assigned is not the order of their declaration)
        for a, v in later:
            if v[0] == "cfg" and dflt_parent.get(v[1]) == (n, a):
                continue
            if a in given_at.get(n, ()):
                continue
            if has_cfg(v):
                val = pyval(v, objs)
                if rng and shuffle_dicts and isinstance(val, dict):
                    items = list(val.items())
                    rng.shuffle(items)
                    val = dict(items)
                setattr(objs[n], a, val)
            elif v[0] == "none":
                setattr(objs[n], a, None)
    for n in graph:
        spec = graph[n]
        if spec["pre"]:
            objs[n].add_pretasks(*[objs[i] for i in spec["pre"]])
        if spec["init"]:
            objs[n].__xpm__.init_tasks = [objs[i] for i in spec["init"]]
        if spec["task"] != "0":
            objs[n].__xpm__.task = objs[spec["task"]]
        if spec["meta"] != "none":
            setmeta(objs[n], spec["meta"] == "true")
    return objs


class Tap:
    """Collects the chunks fed to every HashComputer; rebuilds the bracketed stream of an identifier"""

    def __init__(self):
        self.comps = {}  # id(computer) -> (computer, [chunks])
        self.digests = {}  # digest -> chunks

    def __enter__(self):
        self.old = _verif.tap
        _verif.tap = self
        return self

    def __exit__(self, *a):
        _verif.tap = self.old

    def __call__(self, kind, payload):
        if kind == "hash":
            comp, data = payload
            self.comps.setdefault(id(comp), (comp, []))[1].append(bytes(data))

    def index(self):
        for comp, chunks in self.comps.values():
            self.digests[hashlib.sha256(b"".join(chunks)).digest()] = chunks

    def stream(self, digest):
        self.index()
        return self.flatten(self.digests[digest])

    def flatten(self, chunks):
        out = []
        prev = None
        for ch in chunks:
            if len(ch) == 32 and prev == HashComputer.OBJECT_ID and ch in self.digests:
                out += [256] + self.flatten(self.digests[ch]) + [257]
            else:
                out += list(ch)
            prev = ch
        return out


def seal(obj, jobdir="/job"):
    obj.__xpm__.seal(DirectoryContext(Path(jobdir)))


# ---------------------------------------------------------------- random graphs
STRS = ["", "x", "y", "xy", "yx", "ab", "1"]
KEYS = ["a", "b", "k", "ka", "kb", "k1", "k2"]
INTS = [0, 1, 5, 7, -1, 3, 255, 256, 65536, -256, 2147483647, -2147483647]


def rand_graph(rng, n=3, tasks=True):
    ids = [str(i + 1) for i in range(n)]
    g = {}
    for i in ids:
        cls = rng.choice(["K", "K", "K", "K2", "K2Old", "K2Older", "V", "G", "G", "LW", "T0", "PX", "QX", "N", "DH", "GF", "OD", "MD"] if tasks else ["K", "K", "K2", "V", "G", "PX", "QX", "N", "GF", "OD", "MD"])
        vals = {}

        def ref():
            return ["cfg", rng.choice(ids)]

        if cls == "K":
            vals["a"] = ["int", rng.choice(INTS)]
            vals["b"] = ["int", rng.choice([5, 5, 6, 0])]
            vals["c"] = ref() if rng.random() < 0.5 else ["none"]
            vals["d"] = ["dict", [[k, ref()] for k in rng.sample(KEYS, rng.choice([0, 0, 1, 2]))]]
            vals["e"] = rng.choice([["none"], ["enum", "RED"], ["enum", "BLUE"]])
            vals["f"] = rng.choice([["none"], ["float", "0.5"], ["float", "1.0"], ["float", "-1.5"]])
            vals["g"] = ref() if rng.random() < 0.3 else ["none"]
            vals["l"] = ["list", [ref() for _ in range(rng.choice([0, 0, 1, 2, 3]))]]
            vals["m"] = ["int", rng.choice([0, 1])]
            vals["o"] = rng.choice([["int", 9], ["int", 9], ["none"], ["int", 1]])
            vals["s"] = rng.choice([["none"], ["str", rng.choice(STRS)]])
            vals["v"] = ["int", 3]
        elif cls in ("K2", "K2Old", "K2Older"):
            vals["a"] = ["int", rng.choice(INTS)]
            vals["c"] = ref() if rng.random() < 0.5 else ["none"]
            vals["v"] = ["int", 4]
        elif cls == "V":
            vals["dd"] = ["dict", [[k, ["dict", [[k2, ["int", rng.choice(INTS)]] for k2 in rng.sample(KEYS, rng.choice([0, 1, 2]))]]]
                                   for k in rng.sample(KEYS, rng.choice([0, 1, 2]))]]
            vals["ds"] = ["dict", [[k, ["int", rng.choice(INTS)]] for k in rng.sample(KEYS, rng.choice([0, 1, 2]))]]
            vals["li"] = ["list", [["int", rng.choice(INTS)] for _ in range(rng.choice([0, 1, 2, 3]))]]
            vals["ll"] = ["list", [["list", [["int", rng.choice(INTS)] for _ in range(rng.choice([0, 1, 2]))]] for _ in range(rng.choice([0, 1, 2]))]]
            vals["s1"] = ["str", rng.choice(STRS)]
            vals["s2"] = ["str", rng.choice(STRS)]
        elif cls == "OD":
            vals["a"] = ["int", rng.choice([0, 1, 5])]
            vals["threads"] = ["int", rng.choice([4, 4, 8])]
        elif cls == "MD":
            vals["x"] = ["int", rng.choice([1, 1, 3])]
            vals["y"] = ["int", rng.choice([2, 2, 5])]
        elif cls in ("PX", "QX"):
            vals["a"] = ["int", rng.choice([0, 1, 5])]
            vals["c"] = ref() if rng.random() < 0.4 else ["none"]
        elif cls == "N":
            vals["ll"] = ["list", [["list", [ref() for _ in range(rng.choice([0, 1, 2]))]] for _ in range(rng.choice([0, 1, 2]))]]
            vals["dl"] = ["dict", [[k, ["list", [ref() for _ in range(rng.choice([0, 1, 2]))]]] for k in rng.sample(KEYS, rng.choice([0, 1, 2]))]]
            vals["ld"] = ["list", [["dict", [[k, ref()] for k in rng.sample(KEYS, rng.choice([0, 1, 2]))]] for _ in range(rng.choice([0, 1]))]]
        elif cls == "DH":
            vals["n"] = ["int", rng.choice([0, 1])]
            vals["child"] = ["dflt"]     # resolved below
        elif cls in ("G", "GF"):
            vals["z"] = ref() if rng.random() < 0.7 else ["none"]
        elif cls == "LW":
            vals["k"] = ["int", rng.choice(INTS)]
            vals["c"] = ref() if rng.random() < 0.3 else ["none"]
        elif cls == "T0":
            vals["n"] = ["int", rng.choice([0, 1, 2])]
            vals["x"] = ref() if rng.random() < 0.5 else ["none"]
        g[i] = {"cls": cls, "vals": vals, "meta": rng.choice(["none", "none", "none", "true", "false"]), "pre": [], "init": [], "task": "0"}
    # a configuration-valued default: left alone (the parent's own copy, possibly edited in place) or replaced by a K2 node
    for i in ids:
        if g[i]["cls"] == "DH":
            k2s = [j for j in ids if g[j]["cls"] in ("K2", "K2Old", "K2Older") and not g[j].get("dflt")]
            how = rng.choice(["copy", "copy", "edited", "explicit", "sub"])
            if how == "sub":
                # a value of a sub-class with the parameters of the default: it is not the default
                m = i + "s"
                g[m] = {"cls": rng.choice(["K2Old", "K2Older"]), "vals": {"a": ["int", 1], "c": ["none"], "v": ["int", 4]},
                        "meta": "none", "pre": [], "init": [], "task": "0"}
                g[i]["vals"]["child"] = ["cfg", m]
            elif how == "explicit" and k2s:
                g[i]["vals"]["child"] = ["cfg", rng.choice(k2s)]
            else:
                m = i + "d"
                g[m] = {"cls": "K2", "vals": {"a": ["int", 1 if how != "edited" else rng.choice([2, 3])], "c": ["none"], "v": ["int", 4]},
                        "meta": "none", "pre": [], "init": [], "task": "0", "dflt": "edited" if how == "edited" else "copy"}
                g[i]["vals"]["child"] = ["cfg", m]
    lws = [i for i in ids if g[i]["cls"] in ("LW", "T0")]
    for i in ids:
        if lws and rng.random() < 0.3:
            g[i]["pre"] = rng.sample(lws, rng.choice([1, min(2, len(lws))]))
        if lws and g[i]["cls"] == "T0" and rng.random() < 0.3:
            g[i]["init"] = [rng.choice(lws)]
        if g[i]["cls"] in ("K", "K2") and rng.random() < 0.2:
            ts = [j for j in ids if g[j]["cls"] == "T0" and j != i]
            if ts:
                g[i]["task"] = rng.choice(ts)
    return g
