"""B1 for XpmWorkspace.tla: behaviours exported by TLC (runs of experiments ending normally / by an exception /
by a kill, `jobs clean`, `orphans`) replayed on a real workspace with the real experiment context manager and the
real command line; the directory tree is compared with the specification's state after every action."""
import codecs
import json
import os
import re
import shutil
import sys
import tempfile
import threading
from pathlib import Path

BEH = re.compile(r'^<<"BEH", "(.*)">>$')


def parse_behaviours(text):
    out = []
    for line in text.splitlines():
        m = BEH.match(line.strip())
        if m:
            out.append(json.loads(codecs.decode(m.group(1), "unicode_escape")))
    return out


class Harness:
    def __init__(self, fails, wsmode="abs"):
        import logging
        import warnings

        warnings.filterwarnings("ignore")
        logging.disable(logging.CRITICAL)
        from experimaestro.connectors import Process, ProcessBuilder
        from experimaestro.connectors.local import LocalConnector
        from experimaestro.launchers.direct import DirectLauncher

        self.fails = set(fails)
        self.wd = Path(tempfile.mkdtemp(prefix="xvws-", dir=os.environ.get("XV_SCRATCH", "/dev/shm")))
        harness = self
        # how the workspace is designated: an absolute path, a path relative to the current directory, or (as
        # `run-experiment --workspace ID --workdir DIR` does) settings whose path was overridden with a relative one
        self.wsmode = wsmode
        self.oldcwd = os.getcwd()
        if wsmode != "abs":
            os.chdir(self.wd.parent)

        class FakeProc(Process):
            def __init__(self, script):
                self.script = Path(script)

            def tospec(self):
                return {"type": "local", "pid": os.getpid()}

            def wait(self):
                base = self.script.with_suffix("")
                params = json.loads((self.script.parent / "params.json").read_text())
                n = params["objects"][-1]["fields"]["n"]
                code = 1 if str(n) in harness.fails else 0
                # files the task itself writes in its directory: they say nothing about the state of the job
                (self.script.parent / "epoch-0001.done").write_text("checkpoint")
                (self.script.parent / "trace.failed").write_text("log")
                (self.script.parent / "child.pid").write_text("123")
                if code == 0:
                    base.with_suffix(".done").touch()
                else:
                    base.with_suffix(".failed").write_text("1")
                pid = base.with_suffix(".pid")
                if pid.exists():
                    pid.unlink()
                return code

        class FakeBuilder(ProcessBuilder):
            def start(self, task_mode=False):
                return FakeProc(self.command[-1])

        class Conn(LocalConnector):
            def processbuilder(self):
                return FakeBuilder()

        self.launcher = DirectLauncher(Conn(self.wd / "local"))
        from xvschema.wstask import W

        self.W = W
        self.ids = {}
        for n in ("1", "2", "3"):
            c = W(n=int(n))
            self.ids[n] = (str(c.__xpmtype__.identifier), c.__xpm__.identifier.all.hex())

    def close(self):
        os.chdir(self.oldcwd)
        shutil.rmtree(self.wd, ignore_errors=True)

    def env(self):
        if self.wsmode == "abs":
            return self.wd
        if self.wsmode == "rel":
            return Path(self.wd.name)
        from experimaestro.settings import WorkspaceSettings

        ws_env = WorkspaceSettings("main", path=self.wd.parent / "elsewhere")
        ws_env.path = Path(self.wd.name)          # settings.find_workspace(workspace=..., workdir=...)
        return ws_env

    # --- actions
    def run(self, xp_name, jobs, how):
        from experimaestro import experiment
        from experimaestro.scheduler import base as sbase

        if how == "gen":
            from experimaestro import RunMode

            central = None
            try:
                with experiment(self.env(), xp_name, launcher=self.launcher, port=-1, run_mode=RunMode.GENERATE_ONLY) as xp:
                    central = xp.central
                    for n in sorted(jobs):
                        self.W(n=int(n)).tag("n", n).submit()
            finally:
                self.reap(central)
            return
        xp = experiment(self.env(), xp_name, launcher=self.launcher, port=-1)
        xp.__enter__()
        central = xp.central
        try:
            self._run(xp, jobs, how, sbase)
        finally:
            self.reap(central)

    @staticmethod
    def reap(central):
        """experiment.__exit__ calls loop.stop() from the main thread: the flag is set but the loop thread sleeps in its selector
        and never sees it -- one parked daemon thread per experiment, harmless for a program that runs one experiment, fatal for
        a harness process that runs thousands (RuntimeError: can't start new thread). Wake the loop so that run_forever returns"""
        if central is None or not hasattr(central, "loop"):
            return
        try:
            central.loop.call_soon_threadsafe(central.loop.stop)
        except RuntimeError:
            pass
        if hasattr(central, "join"):
            central.join(5)

    def _run(self, xp, jobs, how, sbase):
        try:
            tasks = []
            for n in sorted(jobs):
                t = self.W(n=int(n)).tag("n", n)
                t.submit()
                tasks.append(t)
            for t in tasks:
                t.__xpm__.job.wait()
        except BaseException:
            xp.__exit__(*sys.exc_info())
            raise
        if how == "ok":
            try:
                xp.__exit__(None, None, None)
            except sbase.FailedExperiment:
                pass
        elif how == "exc":
            try:
                raise RuntimeError("the experiment block raises")
            except RuntimeError:
                xp.__exit__(*sys.exc_info())
        else:  # the process is killed: nothing of __exit__ runs; the OS drops the lock
            loop = xp.central.loop
            loop.call_soon_threadsafe(loop.stop)
            xp.taskOutputsWorker.queue.put(None)
            sbase.SIGNAL_HANDLER.remove(xp)
            sbase.experiment.CURRENT = xp.old_experiment
            xp.workspace.__exit__(None, None, None)
            if xp.xplock:
                xp.xplock.__exit__(None, None, None)

    def cli(self, args):
        from click.testing import CliRunner

        from experimaestro.cli import cli
        import experimaestro.cli.jobs  # noqa: F401 (registers the jobs group)

        r = CliRunner().invoke(cli, args, catch_exceptions=True)
        return r

    def clean(self, sel, xp_name, perform):
        args = ["jobs", "--workdir", str(self.wd), "clean"]
        sel = sorted(sel)
        if len(sel) < 3:
            args += ["--filter", "n in [" + ", ".join(json.dumps(x) for x in (sel or ["none"])) + "]"]
        if xp_name:
            args += ["--experiment", xp_name]
        if perform:
            args += ["--perform"]
        return self.cli(args)

    def orphans(self, clean, ignore_old):
        args = ["orphans", str(self.wd)]
        if clean:
            args.append("--clean")
        if ignore_old:
            args.append("--ignore-old")
        return self.cli(args)

    def mark_running(self, n):
        task, ident = self.ids[n]
        d = self.wd / "jobs" / task / ident
        name = task.rsplit(".", 1)[-1]
        for suffix in (".done", ".failed"):
            p = d / (name + suffix)
            if p.exists():
                p.unlink()
        (d / (name + ".pid")).write_text(json.dumps({"type": "local", "pid": 4194000}))  # nobody: never waited for

    # --- observation
    def snapshot(self, xps):
        dirs = {}
        for n, (task, ident) in self.ids.items():
            d = self.wd / "jobs" / task / ident
            name = task.rsplit(".", 1)[-1]
            if not d.is_dir():
                dirs[n] = "none"
            elif (d / (name + ".done")).exists():
                dirs[n] = "done"
            elif (d / (name + ".failed")).exists():
                dirs[n] = "failed"
            elif (d / (name + ".pid")).exists():
                dirs[n] = "running"
            else:
                dirs[n] = "gen"
        idx, bak, bakE = {}, {}, {}
        for x in xps:
            for name, store in (("jobs", idx), ("jobs.bak", bak)):
                store[x] = sorted(n for n, (task, ident) in self.ids.items() if (self.wd / "xp" / x / name / task / ident).is_symlink())
                # "each to its job directory": a link that exists leads to the directory of that job, whatever the current directory
                for n, (task, ident) in self.ids.items():
                    link = self.wd / "xp" / x / name / task / ident
                    if link.is_symlink() and os.path.realpath(link) != os.path.realpath(self.wd / "jobs" / task / ident):
                        store[x].append(f"{n}: link to {os.readlink(link)} does not lead to the job directory")
            bakE[x] = (self.wd / "xp" / x / "jobs.bak").is_dir()
        return {"dirs": dirs, "idx": idx, "bak": bak, "bakE": bakE}


def norm(st):
    return {"dirs": st["dirs"], "idx": {k: sorted(v) for k, v in st["idx"].items()}, "bak": {k: sorted(v) for k, v in st["bak"].items()}, "bakE": st["bakE"]}


def replay(beh, fails=("3",)):
    """Returns None if the real workspace follows the behaviour, else the first difference"""
    import zlib

    h = Harness(fails, ("abs", "abs", "rel", "settings-rel")[zlib.crc32(json.dumps(beh, sort_keys=True).encode()) % 4])
    try:
        xps = sorted(beh[0]["st"]["idx"])
        for k, ev in enumerate(beh):
            a = ev["a"]
            try:
                if a == "run":
                    h.run(ev["xp"], ev["jobs"], ev["how"])
                elif a == "clean":
                    r = h.clean(ev["sel"], ev["xp"], ev["perform"])
                    if r.exception is not None and not isinstance(r.exception, SystemExit):
                        return {"step": k, "action": {x: ev[x] for x in ev if x != "st"}, "what": f"jobs clean raised {r.exception!r}"}
                elif a == "orphans":
                    r = h.orphans(ev["clean"], ev["ignoreOld"])
                    if r.exception is not None and not isinstance(r.exception, SystemExit):
                        return {"step": k, "action": {x: ev[x] for x in ev if x != "st"}, "what": f"orphans raised {r.exception!r}"}
                    reported = sorted(n for n, (task, ident) in h.ids.items()
                                      if re.search(rf"^\s*{re.escape(task)}/{ident}\s*$", r.output, re.M))
                    if reported != sorted(ev["reported"]):
                        return {"step": k, "action": {x: ev[x] for x in ev if x != "st"},
                                "what": f"orphans reports {reported}, the specification says {sorted(ev['reported'])}"}
                elif a == "running":
                    h.mark_running(ev["job"])
            except Exception as e:
                d = {"step": k, "action": {x: ev[x] for x in ev if x != "st"}, "what": f"exception {e!r}"[:300]}
                if resource_exhausted(e):
                    d["machinery"] = True        # the harness process ran out of a resource: nothing is known about the code
                return d
            got = h.snapshot(xps)
            want = norm(ev["st"])
            if got != want:
                diff = {f: (got[f], want[f]) for f in got if got[f] != want[f]}
                return {"step": k, "action": {x: ev[x] for x in ev if x != "st"}, "what": f"workspace differs from the specification: {diff}"}
        return None
    finally:
        h.close()


def reap_central(central):
    """see Harness.reap: wake the loop thread that experiment.__exit__ leaves parked in its selector"""
    if central is None or not hasattr(central, "loop"):
        return
    try:
        central.loop.call_soon_threadsafe(central.loop.stop)
    except RuntimeError:
        pass
    if hasattr(central, "join"):
        central.join(5)


def resource_exhausted(e):
    import errno

    return isinstance(e, MemoryError) or "can't start new thread" in str(e) or \
        (isinstance(e, OSError) and e.errno in (errno.EMFILE, errno.ENFILE, errno.ENOSPC, errno.ENOMEM, errno.EAGAIN))
