"""E2-restart: the real scheduler process is killed at the k-th statement of its launch path (any thread), its job
processes keep running; the same experiment is run again and must reach the same results with every body executed
once (C11)."""
import json
import os
import shutil
import subprocess
import tempfile
import time
from concurrent.futures import ThreadPoolExecutor
from pathlib import Path

VERIF = Path("/verif")
REPO_SRC = os.environ.get("XV_REPO_SRC", "/repo/src")
PROG = VERIF / "xv" / "procs" / "xp_restart.py"


def one(args):
    k, late_gates = args
    root = Path(tempfile.mkdtemp(prefix="xvrs-", dir=os.environ.get("XV_SCRATCH_DISK", str(VERIF / ".work"))))
    try:
        wd, gates, log, cf = root / "ws", root / "gates", root / "body.ndjson", root / "count.json"
        gates.mkdir()
        env = dict(os.environ, PYTHONPATH=f"{REPO_SRC}:{VERIF}")
        env.pop("XPM_VERIF", None)
        opened = lambda: [(gates / f"gate.x{i}").touch() for i in (1, 2, 3)]  # noqa: E731
        if k <= 0:
            opened()
        p = subprocess.Popen(["/venv/bin/python", "-W", "ignore", str(PROG), str(wd), str(gates), str(log), str(k), str(cf)], env=env,
                             stdout=subprocess.PIPE, stderr=subprocess.DEVNULL, text=True, cwd="/")
        if k > 0:
            # the jobs wait for their gate: the fault always comes first (or the launch path is over and nothing happens)
            t0 = time.time()
            while p.poll() is None and time.time() - t0 < 25:
                if cf.exists():
                    break
                time.sleep(0.05)
                if time.time() - t0 > 6 and p.poll() is None:   # no fault reached within the launch of everything: let it finish
                    opened()
        try:
            out, _ = p.communicate(timeout=300)
        except subprocess.TimeoutExpired:
            p.kill()
            return {"k": k, "problem": "the first run does not finish", "machinery": True}
        killed = p.returncode == -9
        first = json.loads(cf.read_text()) if cf.exists() else None
        res = {"k": k, "killed": killed, "first": first, "late_gates": late_gates}
        if not killed:
            res["count"] = first["count"] if first else None
            res["states"] = first["states"] if first else None
        else:
            stopped = []
            # which orphan jobs can be adopted: their pid file was written before the scheduler died and their process lives
            adoptable = []
            for f in wd.glob("jobs/*/*/*.pid"):
                try:
                    pid = json.loads(f.read_text())["pid"]
                    if os.path.exists(f"/proc/{pid}"):
                        pj = json.loads((f.parent / "params.json").read_text())
                        adoptable.append(f"x{pj['objects'][-1]['fields']['x']}")
                except Exception:
                    pass
            res["adoptable"] = sorted(adoptable)
            if late_gates == "stopped":
                # the orphan jobs are suspended (SIGSTOP: a debugger, a batch system holding them) when the experiment starts again
                import signal as _signal

                for l in (log.read_text().split("\n")[:-1] if log.exists() else []):
                    e = json.loads(l)
                    if e["e"] == "begin":
                        try:
                            os.kill(e["pid"], _signal.SIGSTOP)
                            stopped.append(e["pid"])
                        except ProcessLookupError:
                            pass
            if not late_gates:
                opened()
                time.sleep(0.3)
            q = subprocess.Popen(["/venv/bin/python", "-W", "ignore", str(PROG), str(wd), str(gates), str(log), "0", str(cf)], env=env,
                                 stdout=subprocess.PIPE, stderr=subprocess.DEVNULL, text=True, cwd="/")
            if late_gates:
                time.sleep(4.0 if late_gates == "stopped" else 1.5)      # the restarted scheduler meets running (or suspended) jobs
                opened()
                for pid in stopped:
                    try:
                        os.kill(pid, _signal.SIGCONT)
                    except ProcessLookupError:
                        pass
            try:
                q.communicate(timeout=400)
            except subprocess.TimeoutExpired:
                q.kill()
                res["problem"] = "the restarted experiment does not finish"
            second = json.loads(cf.read_text()) if cf.exists() else None
            res["states"] = second["states"] if second else None
            res["rc2"] = q.returncode
        body = [json.loads(l) for l in log.read_text().splitlines() if l.strip()] if log.exists() else []
        res["bodies"] = {f"x{i}": [sum(1 for e in body if e["p"] == f"x{i}" and e["e"] == w) for w in ("begin", "end")] for i in (1, 2, 3)}
        # what the jobs wrote on their standard output is still there (a job launched again has its output truncated)
        outs = {}
        for f in wd.glob("jobs/*/*/*.out"):
            t = f.read_text()
            for i in (1, 2, 3):
                if f"result of x{i}:" in t:
                    outs[f"x{i}"] = True
        res["outputs"] = sorted(outs)
        # a job script that was launched while its success marker already existed says so on its standard error
        again = []
        for f in wd.glob("jobs/*/*/*.err"):
            if "Job already completed" in f.read_text():
                try:
                    pj = json.loads((f.parent / "params.json").read_text())
                    again.append(f"x{pj['objects'][-1]['fields']['x']}")
                except Exception:
                    pass
        res["launched_again"] = sorted(again)
        # b starts only after a has ended
        order = [(e["e"], e["p"]) for e in body]
        if ("begin", "x2") in order and (("end", "x1") not in order or order.index(("begin", "x2")) < order.index(("end", "x1"))):
            res["problem"] = "the dependent job started before its upstream job had ended"
        return res
    finally:
        # stray job processes of this workspace
        subprocess.run(["pkill", "-9", "-f", str(root)], capture_output=True)
        shutil.rmtree(root, ignore_errors=True)


def run(ks, workers=12):
    with ThreadPoolExecutor(max_workers=workers) as ex:
        return list(ex.map(one, ks))


if __name__ == "__main__":
    import sys

    (VERIF / ".work").mkdir(exist_ok=True)
    r0 = one((-1, False))
    print("calibration", r0)
    n = r0["count"]
    step = int(sys.argv[1]) if len(sys.argv) > 1 else 25
    t0 = time.time()
    out = run([(k, (k // step) % 2 == 1) for k in range(1, n + 2, step)])
    print(f"{len(out)} runs in {time.time()-t0:.1f}s")
    for r in out:
        ok = r.get("states") == ["DONE", "DONE", "DONE"] and all(v == [1, 1] for v in r["bodies"].values()) and not r.get("problem")
        if not ok:
            print("BAD", r)
    print("killed", sum(1 for r in out if r.get("killed")), "of", len(out))


def signal_case(sig):
    """No scheduler fault: the upstream job x1 receives `sig` while its body runs; x2 depends on it, x3 does not.
    Returns the final states and the body counts"""
    import signal as _signal

    root = Path(tempfile.mkdtemp(prefix="xvsg-", dir=os.environ.get("XV_SCRATCH_DISK", str(VERIF / ".work"))))
    try:
        wd, gates, log, cf = root / "ws", root / "gates", root / "body.ndjson", root / "count.json"
        gates.mkdir()
        env = dict(os.environ, PYTHONPATH=f"{REPO_SRC}:{VERIF}")
        env.pop("XPM_VERIF", None)
        p = subprocess.Popen(["/venv/bin/python", "-W", "ignore", str(PROG), str(wd), str(gates), str(log), "0", str(cf)], env=env,
                             stdout=subprocess.PIPE, stderr=subprocess.DEVNULL, text=True, cwd="/")
        pid = None
        t0 = time.time()
        while time.time() - t0 < 60 and pid is None:
            if log.exists():
                for l in log.read_text().split("\n")[:-1]:      # (complete lines only)
                    e = json.loads(l)
                    if e["e"] == "begin" and e["p"] == "x1":
                        pid = e["pid"]
            time.sleep(0.05)
        if pid is None:
            p.kill()
            return {"machinery": True, "problem": "the upstream job never began"}
        (gates / "gate.x3").touch()
        time.sleep(0.3)
        try:
            os.kill(pid, getattr(_signal, "SIG" + sig))
        except ProcessLookupError:
            pass
        time.sleep(0.5)
        for i in (1, 2):
            (gates / f"gate.x{i}").touch()
        try:
            p.communicate(timeout=300)
        except subprocess.TimeoutExpired:
            p.kill()
            return {"sig": sig, "problem": "the experiment does not finish after the signal"}
        first = json.loads(cf.read_text()) if cf.exists() else {}
        body = [json.loads(l) for l in log.read_text().splitlines() if l.strip()] if log.exists() else []
        return {"sig": sig, "states": first.get("states"), "rc": p.returncode,
                "bodies": {f"x{i}": [sum(1 for e in body if e["p"] == f"x{i}" and e["e"] == w) for w in ("begin", "end")] for i in (1, 2, 3)}}
    finally:
        subprocess.run(["pkill", "-9", "-f", str(root)], capture_output=True)
        shutil.rmtree(root, ignore_errors=True)


def rerun_case():
    """First experiment: the job x1 is configured to fail (Meta parameter) and does; second experiment: the same job
    (same identifier) configured to succeed.  The second attempt runs with the parameters of the second configuration."""
    root = Path(tempfile.mkdtemp(prefix="xvrr-", dir=os.environ.get("XV_SCRATCH_DISK", str(VERIF / ".work"))))
    try:
        wd, gates, log, cf = root / "ws", root / "gates", root / "body.ndjson", root / "count.json"
        gates.mkdir()
        for i in (1, 2, 3):
            (gates / f"gate.x{i}").touch()
        env = dict(os.environ, PYTHONPATH=f"{REPO_SRC}:{VERIF}")
        env.pop("XPM_VERIF", None)
        out = []
        for attempt, extra in (("first", {"XV_FAILFIRST": "1", "XV_TAG": "one"}), ("second", {"XV_TAG": "two"})):
            p = subprocess.run(["/venv/bin/python", "-W", "ignore", str(PROG), str(wd), str(gates), str(log), "0", str(cf)], env=dict(env, **extra),
                               capture_output=True, text=True, cwd="/", timeout=300)
            out.append(json.loads(cf.read_text())["states"] if cf.exists() else None)
            if cf.exists():
                cf.unlink()
        tags = None
        for f in wd.glob("jobs/*/*/params.json"):
            pj = json.loads(f.read_text())
            if pj["objects"][-1]["fields"].get("x") == 1:
                tags = pj.get("tags")
        body = [json.loads(l) for l in log.read_text().splitlines() if l.strip()] if log.exists() else []
        return {"states": out, "tags_of_x1": tags, "x1": [sum(1 for e in body if e["p"] == "x1" and e["e"] == w) for w in ("begin", "fail", "end")]}
    except subprocess.TimeoutExpired:
        return {"problem": "an experiment of the re-run scenario does not finish"}
    finally:
        subprocess.run(["pkill", "-9", "-f", str(root)], capture_output=True)
        shutil.rmtree(root, ignore_errors=True)
