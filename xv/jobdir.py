"""C10 / C05(b): histories of real job processes validated against XpmJobDir.tla"""
import os
import sys
import time

from . import e2_jobdir as e2
from . import tlc


def specs_sequential(nlines, step, sigs=("KILL", "TERM", "INT"), variants=("plain",)):
    out = []
    for variant in variants:
        for sig in sigs:
            for k in range(1, nlines + 1, step):
                pre = {"failed": True} if variant == "prefailed" else {"done": True} if variant == "predone" else {}
                out.append((e2.sequential(sig, k, fail=(variant == "failing")), pre))
    return out


def specs_concurrent():
    return [(e2.concurrent_two(v), {}) for v in ("plain", "p1fails", "term-waiter", "int-waiter", "kill-holder", "term-holder")] + [
        (e2.concurrent_three(), {}), (e2.inherited_ignore("INT"), {}), (e2.inherited_ignore("TERM"), {}),
        (e2.forking_body("NONE"), {}), (e2.forking_body("TERM"), {}), (e2.forking_body("INT"), {})] + [
        (e2.forking_loop(sig, d), {}) for sig in ("TERM", "INT") for d in (0.02, 0.11, 0.19, 0.27, 0.36, 0.44)] + [
        (e2.preempted_in_handler(k, sig), {}) for k in range(1, 16) for sig in (("TERM",) if k % 3 else ("TERM", "INT"))]


def validate(histories):
    traces = [{"ev": h["events"]} for h in histories]
    return tlc.validate_batch("XpmJobDir_Trace.tla", "XpmJobDir_Trace.cfg", traces, shard=60, deque=True)


if __name__ == "__main__":
    step = int(sys.argv[1]) if len(sys.argv) > 1 else 9
    t0 = time.time()
    n = e2.calibrate()
    specs = specs_sequential(n + 6, step) + specs_concurrent() + [(e2.sequential("NONE", 0), {}), (e2.sequential("NONE", 0, fail=True), {})]
    hs = e2.run_histories(specs)
    t1 = time.time()
    v, st = validate(hs)
    print(f"lines={n} histories={len(hs)} run={t1-t0:.1f}s tlc={time.time()-t1:.1f}s states={st['distinct']}", st["errors"][:1])
    bad = 0
    for (ops, pre), h, x in zip(specs, hs, v):
        if not x["accepted"] or x["inv"] or h["timeout"]:
            bad += 1
            if bad <= 6:
                r = x["reached"]
                print("BAD", ops[0], pre, x, "timeout" if h["timeout"] else "", h["events"][r - 1 : r + 2] if r else "")
    print("bad", bad)
