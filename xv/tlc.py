"""Running TLC / SANY and parsing their output"""
import os
import re
import shutil
import subprocess
import tempfile
import time
from pathlib import Path

VERIF = Path(__file__).resolve().parent.parent
SPEC = VERIF / "spec"
WORK = VERIF / ".work"
TLA_CP = "/opt/veriftools/tla/tla2tools.jar:/opt/veriftools/tla/CommunityModules-deps.jar"


def workdir(prefix="w"):
    WORK.mkdir(exist_ok=True)
    return Path(tempfile.mkdtemp(prefix=prefix + "-", dir=WORK))


class TLCResult:
    def __init__(self, rc, out, wall):
        self.rc = rc
        self.out = out
        self.wall = wall
        m = re.findall(r"(\d+) states generated, (\d+) distinct states found", out)
        self.generated = int(m[-1][0]) if m else 0
        self.distinct = int(m[-1][1]) if m else 0
        m = re.search(r"The depth of the complete state graph search is (\d+)", out)
        self.depth = int(m.group(1)) if m else 0
        self.violation = None
        m = re.search(r"Error: Invariant (\S+) is violated", out)
        if m:
            self.violation = ("invariant", m.group(1))
        m = re.search(r"Error: Action property (\S+) is violated", out)
        if m:
            self.violation = ("action property", m.group(1))
        if "Error: Deadlock reached" in out:
            self.violation = ("deadlock", "deadlock")
        if "Temporal properties were violated" in out:
            self.violation = ("temporal", "temporal")
        self.error = None
        if self.violation is None and ("Error:" in out or rc not in (0,)):
            m = re.search(r"Error: (.*)", out)
            self.error = m.group(1) if m else f"rc={rc}"
        self.ok = rc == 0 and self.violation is None and self.error is None

    def printed(self, tag):
        """Values printed with PrintT(<<tag, ...>>), one per line, parsed by bracket matching"""
        res = []
        for line in self.out.splitlines():
            line = line.strip()
            if line.startswith('<<"%s"' % tag):
                res.append(parse_tla(line))
        return res

    def coverage(self):
        """action name -> (distinct, total) from the -coverage table"""
        cov = {}
        for m in re.finditer(r"<(\w+) line \d+, col \d+ to line \d+, col \d+ of module \w+>: (\d+):(\d+)", self.out):
            name, a, b = m.group(1), int(m.group(2)), int(m.group(3))
            x = cov.get(name, (0, 0))
            cov[name] = (x[0] + a, x[1] + b)
        return cov


def tlc(module, cfg, *, workers="auto", env=None, timeout=1800, extra=(), deque=False, cwd=SPEC, coverage=False):
    meta = workdir("tlc")
    e = dict(os.environ)
    if env:
        e.update({k: str(v) for k, v in env.items()})
    # java is started directly (not through the `tlc` wrapper) so that -Xss also applies to the main thread,
    # in which TLC evaluates initial states and constant expressions (deep recursive operators)
    jopts = ["-XX:+UseParallelGC", "-Xss512m", f"-Djava.io.tmpdir={meta}"]      # (TLC leaves an empty tlc-* directory there)
    if deque:
        jopts.append("-Dtlc2.tool.queue.IStateQueue=StateDeque")
    cmd = ["java"] + jopts + ["-cp", TLA_CP, "tlc2.TLC", "-workers", str(workers), "-metadir", str(meta), "-noGenerateSpecTE", "-config", str(cfg)]
    if coverage:
        cmd += ["-coverage", "1"]
    cmd += list(extra) + [str(module)]
    t0 = time.time()
    try:
        p = subprocess.run(cmd, cwd=cwd, env=e, capture_output=True, text=True, timeout=timeout)
        out, rc = p.stdout + p.stderr, p.returncode
    except subprocess.TimeoutExpired as ex:
        out = (ex.stdout or b"").decode() if isinstance(ex.stdout, bytes) else (ex.stdout or "")
        out += "\nError: TLC timed out"
        rc = 124
        subprocess.run(["pkill", "-f", str(meta)], capture_output=True)
    finally:
        shutil.rmtree(meta, ignore_errors=True)
    return TLCResult(rc, out, time.time() - t0)


def sany(module, cwd=SPEC):
    p = subprocess.run(["tla-sany", str(module)], cwd=cwd, capture_output=True, text=True)
    out = p.stdout + p.stderr
    return p.returncode == 0 and "*** Errors" not in out, out


# ---------------------------------------------------------------- TLA+ value parser
def parse_tla(text):
    """Parses the printed form of a TLA+ value (tuples, sets, records, strings, ints, booleans)"""
    pos = 0
    n = len(text)

    def ws():
        nonlocal pos
        while pos < n and text[pos].isspace():
            pos += 1

    def value():
        nonlocal pos
        ws()
        if text.startswith("<<", pos):
            pos += 2
            items = seq(">>")
            return items
        if text[pos] == "{":
            pos += 1
            return set_(seq("}"))
        if text[pos] == "[":
            pos += 1
            rec = {}
            ws()
            if text[pos] == "]":
                pos += 1
                return rec
            while True:
                ws()
                m = re.compile(r"([^\s|]+)\s*\|->").match(text, pos)
                key = m.group(1)
                pos = m.end()
                rec[key] = value()
                ws()
                if text[pos] == ",":
                    pos += 1
                    continue
                if text[pos] == "]":
                    pos += 1
                    return rec
                raise ValueError(f"bad record at {pos}: {text[pos:pos+20]}")
        if text[pos] == '"':
            j = pos + 1
            buf = []
            while text[j] != '"':
                if text[j] == "\\":
                    j += 1
                buf.append(text[j])
                j += 1
            pos = j + 1
            return "".join(buf)
        m = re.compile(r"-?\d+").match(text, pos)
        if m:
            pos = m.end()
            return int(m.group(0))
        m = re.compile(r"TRUE|FALSE").match(text, pos)
        if m:
            pos = m.end()
            return m.group(0) == "TRUE"
        m = re.compile(r"[A-Za-z_][A-Za-z0-9_]*").match(text, pos)
        if m:
            pos = m.end()
            return m.group(0)
        raise ValueError(f"cannot parse at {pos}: {text[pos:pos+30]}")

    def seq(close):
        nonlocal pos
        items = []
        ws()
        if text.startswith(close, pos):
            pos += len(close)
            return items
        while True:
            items.append(value())
            ws()
            if text[pos] == ",":
                pos += 1
                continue
            if text.startswith(close, pos):
                pos += len(close)
                return items
            raise ValueError(f"bad sequence at {pos}: {text[pos:pos+20]}")

    def set_(items):
        try:
            return sorted(items, key=repr)
        except Exception:
            return items

    return value()


def validate_batch(module, cfg, traces, *, shard=300, deque=True, env=None, workers=16, timeout=3600):
    """Validates a list of traces (JSON-serialisable records with an `ev` list) against a *_Trace
    specification that follows the batch protocol (tid, TLCSet registers, REJECTED / INV / MISMATCH lines).
    Returns (verdicts, stats): verdict = {accepted, reached, inv: [names], mismatch: [clauses]}"""
    import json
    from concurrent.futures import ThreadPoolExecutor

    wd = workdir("batch")
    shards = []
    for k in range(0, len(traces), shard):
        f = wd / f"b{k}.json"
        f.write_text(json.dumps(traces[k : k + shard]))
        shards.append((k, f, len(traces[k : k + shard])))
    verdicts = [None] * len(traces)
    stats = {"generated": 0, "distinct": 0, "wall": 0.0, "errors": []}

    def one(item):
        k, f, n = item
        e = dict(env or {})
        e["TRACE_FILE"] = str(f)
        return item, tlc(module, cfg, workers=1, env=e, deque=deque, timeout=timeout)

    with ThreadPoolExecutor(max_workers=workers) as ex:
        for (k, f, n), res in ex.map(one, shards):
            stats["generated"] += res.generated
            stats["distinct"] += res.distinct
            stats["wall"] += res.wall
            rejected = {x[1]: x for x in res.printed("REJECTED")}
            invs, mism = {}, {}
            for x in res.printed("INV"):
                invs.setdefault(x[1], set()).update(x[3])
            for x in res.printed("MISMATCH"):
                mism.setdefault(x[1], []).append(x)
            if (res.error or res.violation) and not rejected:
                stats["errors"].append((res.error or str(res.violation)) + "\n" + res.out[-2500:])
            for t in range(1, n + 1):
                r = rejected.get(t)
                verdicts[k + t - 1] = {
                    "accepted": r is None and not (res.error and not rejected),
                    "reached": r[2] if r else None,
                    "inv": sorted(invs.get(t, ())),
                    "mismatch": sorted({c for m in mism.get(t, []) if r and m[2] == r[2] + 1 for c in m[3]}),
                }
    shutil.rmtree(wd, ignore_errors=True)
    return verdicts, stats


def tlaps(module, timeout=900):
    """Runs the TLA+ proof system on a module of /verif/spec (in a scratch copy: tlapm writes a cache next to the file).
    Returns (all obligations proved, number of obligations, tail of the output)"""
    import re as _re

    wd = workdir("tlaps")
    for f in SPEC.glob("*.tla"):
        shutil.copy(f, wd / f.name)
    try:
        p = subprocess.run(["tlapm", "--toolbox", "0", "0", module], cwd=str(wd), capture_output=True, text=True, timeout=timeout)
        out = p.stdout + p.stderr
    except subprocess.TimeoutExpired:
        out = "timeout"
    finally:
        pass
    m = _re.search(r"All (\d+) obligations? proved", out)
    shutil.rmtree(wd, ignore_errors=True)
    return bool(m), int(m.group(1)) if m else 0, out[-600:]
