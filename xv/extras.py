"""./check extras -- specifications of behaviour outside the twenty listed properties, bound to the code the same way

XpmProgress: progress reports of a running task (notifications.Reporter, its thread, the server route's
Job.set_progress).  TLC is the reference evaluator: every sequence of <= 3 calls of progress() over 3 levels x 3 values
x 3 descriptions (19 683 behaviours) with the view the scheduler must end up showing after each call; each is replayed
on the real Reporter (real thread, real condition variable; urlopen replaced by a direct call of what the route does)
and a real Job.set_progress.  The consistency one would like (scheduler view = task view once the reporter is idle)
does not hold for the code as it is -- two deviations, named in the specification; TLC shows both and shows that the
repaired design has it."""
import json
import os
import sys
import tempfile
import time
import types
import urllib.parse
from concurrent.futures import ProcessPoolExecutor
from pathlib import Path

from . import tlc, ws


def _replay(behs):
    import logging
    import warnings

    warnings.filterwarnings("ignore")
    logging.disable(logging.CRITICAL)
    from experimaestro import notifications as N
    from experimaestro.scheduler.base import Job

    out = []
    state = {}

    class FakeResponse:
        def __enter__(self):
            return self

        def __exit__(self, *a):
            return False

    def fake_urlopen(url):
        # what server.notifications_progress does with the request
        q = urllib.parse.parse_qs(urllib.parse.urlparse(url).query)
        level = int(q.get("level", ["0"])[0])
        progress = float(q.get("progress", ["0.0"])[0])
        desc = q.get("desc", [None])[0]
        state["job"].set_progress(level, progress, desc)
        return FakeResponse()

    N.urlopen = fake_urlopen
    for beh in behs:
        d = Path(tempfile.mkdtemp(prefix="xvprog-", dir=os.environ.get("XV_SCRATCH", "/dev/shm")))
        job = object.__new__(Job)
        job._progress = []
        job.scheduler = types.SimpleNamespace(listeners=[])
        state["job"] = job
        r = N.Reporter(d)
        r.urls = {"k": N.ListenerInformation("http://scheduler/notifications/job")}
        r.start()
        bad = None
        try:
            for k, op in enumerate(beh):
                r.set_progress(op["v"] / 1000.0, op["l"], None if op["d"] == "none" else op["d"])
                t0 = time.time()
                while (r.modified() or not r.cv._waiters) and time.time() - t0 < 5:
                    time.sleep(0.0002)
                got = [{"desc": x.desc if x.desc is not None else "none", "p": int(round(x.progress * 1000))} for x in job._progress]
                if got != op["sched"]:
                    bad = {"step": k, "calls": [[o["v"], o["l"], o["d"]] for o in beh[: k + 1]], "scheduler_shows": got, "specification": op["sched"]}
                    break
        finally:
            r.stop()
            r.join(2)
            import shutil

            shutil.rmtree(d, ignore_errors=True)
        out.append(bad)
    return out


def main(tier="quick"):
    failures = []

    def expect(name, cond, detail=""):
        print(("ok   " if cond else "FAIL ") + name + (" -- " + detail if detail and not cond else ""))
        if not cond:
            failures.append(name)

    ok, out = tlc.sany("XpmProgress.tla")
    expect("XpmProgress parses", ok, out[-300:])
    r = tlc.tlc("XpmProgress.tla", "MC_Progress_outer.cfg", timeout=900)
    expect("TLC: with levels opened one at a time, the levels the task still has are shown right (OuterConsistent, code as it is)", r.ok, str(r.violation or r.error))
    r = tlc.tlc("XpmProgress.tla", "MC_Progress_consistent.cfg", timeout=900)
    expect("TLC: full consistency does not hold for the code as it is (deviation shown)", bool(r.violation), str(r.error))
    r = tlc.tlc("XpmProgress.tla", "MC_Progress_padonly.cfg", timeout=900)
    expect("TLC: numbering the padding levels is not enough (a silent truncation remains)", bool(r.violation), str(r.error))
    r = tlc.tlc("XpmProgress.tla", "MC_Progress_repaired.cfg", timeout=900)
    expect("TLC: the repaired design is consistent", r.ok, str(r.violation or r.error))
    mc = tlc.tlc("XpmProgress.tla", "MC_Progress.cfg", workers=1, timeout=900)
    behs = ws.parse_behaviours(mc.out)
    expect("TLC exports the behaviours of the code as it is", len(behs) == 19683, f"{len(behs)} behaviours")
    if tier == "quick":
        behs = behs[::5]
    shards = [behs[k::16] for k in range(16)]
    with ProcessPoolExecutor(max_workers=16) as ex:
        res = [x for part in ex.map(_replay, shards) for x in part]
    bad = [x for x in res if x]
    expect(f"replay: the scheduler shows what the specification says after every call ({len(res)} behaviours)", not bad, json.dumps(bad[:1])[:500])
    print("EXTRAS " + ("PASSED" if not failures else f"FAILED ({len(failures)})"))
    return 1 if failures else 0


if __name__ == "__main__":
    sys.exit(main(sys.argv[1] if len(sys.argv) > 1 else "quick"))
