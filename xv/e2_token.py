"""E2-token: several real processes share one file-based CounterToken (real ipc lock, real watchdog observers, real
reclaim threads); the harness scripts scenarios, uses the guarded pause points to force interleavings, and all
events (hooks + harness) go to one O_APPEND file whose order is the order of the writes."""
import json
import os
import shutil
import signal
import subprocess
import tempfile
import time
from pathlib import Path

REPO_SRC = os.environ.get("XV_REPO_SRC", "/repo/src")
VERIF = Path(__file__).resolve().parent.parent
PROC = VERIF / "xv" / "procs" / "token_proc.py"


def complete_lines(text):
    """the lines of a log that is being appended to: a reader can see the beginning of the line being written"""
    lines = text.split("\n")
    return lines[:-1]          # (what follows the last newline is either empty or a line not yet complete)


class World:
    def __init__(self, total, owner, req):
        self.root = Path(tempfile.mkdtemp(prefix="xvtok-", dir=os.environ.get("XV_SCRATCH_DISK", str(VERIF / ".work"))))
        self.tokdir = self.root / "tok"
        self.jobsroot = self.root / "jobs"
        self.pausedir = self.root / "pause"
        self.pausedir.mkdir()
        self.log = self.root / "events.ndjson"
        self.total, self.owner, self.req = total, owner, dict(req)
        self.req0 = dict(req)       # (a job submitted again may ask for another amount)
        self.procs = {}
        self.pids = {}
        self.problems = []

    # --- log
    def emit(self, e, **kw):
        fd = os.open(self.log, os.O_WRONLY | os.O_APPEND | os.O_CREAT, 0o644)
        os.write(fd, (json.dumps(dict(e=e, **kw)) + "\n").encode())
        os.close(fd)

    def events(self):
        out = []
        rev = {v: k for k, v in self.pids.items()}
        with open(self.log) as fp:
            for line in complete_lines(fp.read()):
                if not line.strip():
                    continue
                r = json.loads(line)
                if "pid" in r and "p" not in r:
                    r["p"] = rev.get(r.pop("pid"), r.get("proc", "?"))
                if "proc" in r and "p" not in r:
                    r["p"] = r["proc"]
                if "name" in r:
                    if not r["name"].endswith(".token"):
                        if r["e"] == "tok.evt.error":
                            self.problems.append(f"observer of {r.get('p')} raised on {r['name']}")
                        continue
                    r["job"] = r["name"].replace(".token", "")
                r.pop("seq", None)
                out.append(r)
        # a process reports its first recount (tok.init) after having done it: whatever it logged before -- its reclaim
        # threads are started by that recount -- happened afterwards
        for p in {r.get("p") for r in out if r["e"] == "tok.init"}:
            i = next(k for k, r in enumerate(out) if r["e"] == "tok.init" and r.get("p") == p)
            w = max([k for k, r in enumerate(out[:i]) if r["e"] == "tok.info.write" and r.get("p") == p], default=-1)
            own = [k for k in range(w + 1, i) if out[k].get("p") == p]
            if own:
                out.insert(own[0], out.pop(i))
        return out

    def mark(self):
        """position in the log: wait_event(..., since=mark) only looks at what is logged afterwards"""
        return len(self.events())

    def wait_event(self, pred, timeout=8.0, since=0):
        t0 = time.time()
        while time.time() - t0 < timeout:
            if any(pred(r) for r in self.events()[since:]):
                return True
            time.sleep(0.02)
        return False

    def told(self, j, since, timeout=20.0):
        """waits until the waiting job j is told that its request fits (an orphan's process is only seen as gone once
        it has been reaped, which can take seconds); returns whether that happened"""
        return self.wait_event(lambda r: r["e"] == "tok.dep.changed" and r.get("job") == j and r.get("new") == "OK", timeout, since)

    # --- processes
    def start(self, p, total=None, wait=True):
        """total: the process declares the token with another total than the one it was created with"""
        env = dict(os.environ, PYTHONPATH=f"{REPO_SRC}:{VERIF}", XPM_VERIF="1", XPM_VERIF_TRACE=str(self.log),
                   XPM_VERIF_PAUSE=str(self.pausedir))
        q = subprocess.Popen(["/venv/bin/python", "-W", "ignore", str(PROC), str(self.tokdir), str(self.total if total is None else total), p, str(self.jobsroot)],
                             env=env, stdin=subprocess.PIPE, stdout=subprocess.PIPE, stderr=subprocess.DEVNULL, text=True, bufsize=1)
        self.procs[p] = q
        self.pids[p] = q.pid
        if not wait:
            return None
        return self.started(p)

    def started(self, p):
        r = self.recv(p, timeout=30)
        if r and r.get("ok"):
            self.emit("h.start", p=p)
        return r  # (the initial recount itself is the hook event tok.init of that process)

    def send(self, p, **cmd):
        q = self.procs[p]
        try:
            q.stdin.write(json.dumps(cmd) + "\n")
            q.stdin.flush()
        except BrokenPipeError:
            pass

    def recv(self, p, timeout=15):
        import select

        q = self.procs[p]
        r, _, _ = select.select([q.stdout], [], [], timeout)
        if not r:
            self.problems.append(f"no answer from {p}")
            return None
        line = q.stdout.readline()
        if not line:
            return None
        return json.loads(line)

    def cmd(self, p, **cmd):
        self.send(p, **cmd)
        return self.recv(p)

    def submit(self, j):
        self.emit("h.submit", job=j, p=self.owner[j])
        return self.cmd(self.owner[j], op="submit", job=j, count=self.req[j])

    def resubmit(self, j, count):
        """the job has ended and given its token back; it is submitted again (same name, hence same token file), asking for `count`"""
        self.emit("h.resubmit", job=j, count=count)
        self.req[j] = count
        return self.submit(j)

    def suspend(self, p):
        """the scheduler process is not scheduled for a while (SIGSTOP): the events of the token directory queue up"""
        self.emit("h.note", what=f"{p} suspended")
        self.suspended = getattr(self, "suspended", set()) | {p}
        os.kill(self.pids[p], signal.SIGSTOP)

    def resume(self, p):
        self.emit("h.note", what=f"{p} resumed")
        self.suspended = getattr(self, "suspended", set()) - {p}
        os.kill(self.pids[p], signal.SIGCONT)

    def acquire(self, j):
        return self.cmd(self.owner[j], op="acquire", job=j)

    def release(self, j):
        return self.cmd(self.owner[j], op="release", job=j)

    def startjob(self, j):
        r = self.cmd(self.owner[j], op="startjob", job=j)
        self.emit("h.jobstart", job=j)
        return r

    def endjob(self, j):
        self.emit("h.jobend", job=j)
        (self.jobsroot / j / (j + ".end")).touch()
        lock = self.jobsroot / j / (j + ".lock")
        t0 = time.time()
        while (self.jobsroot / j / (j + ".pid")).exists() and time.time() - t0 < 10:
            time.sleep(0.01)
        time.sleep(0.05)
        # a live scheduler waits for the processes it started (aio_code): the job does not stay a zombie, and the threads of
        # other schedulers that wait for that process see it go
        p = self.owner[j]
        if p in self.procs and self.procs[p].poll() is None and not getattr(self, "suspended", set()) & {p}:
            self.cmd(p, op="reap", job=j)

    def killjob(self, j):
        """the job process is killed from outside (SIGKILL, out of memory): it ends without removing its pid file"""
        self.emit("h.jobend", job=j)
        pidf = self.jobsroot / j / (j + ".pid")
        try:
            pid = json.loads(pidf.read_text())["pid"]
            os.kill(pid, signal.SIGKILL)
            t0 = time.time()
            while os.path.exists(f"/proc/{pid}") and time.time() - t0 < 15:      # until it has been reaped: the pid names nobody
                time.sleep(0.05)
        except Exception as e:
            self.problems.append(f"could not kill job {j}: {e!r}")
        time.sleep(0.1)

    def kill(self, p):
        self.emit("h.kill", p=p)
        self.procs[p].send_signal(signal.SIGKILL)
        self.procs[p].wait()

    def quiescent(self, settle=0.7, limit=25.0):
        """waits until nothing has been logged for `settle` seconds (reclaim threads poll the job process)"""
        t0 = time.time()
        last = (-1, t0)
        while time.time() - t0 < limit:
            n = self.log.stat().st_size if self.log.exists() else 0
            if n != last[0]:
                last = (n, time.time())
            elif time.time() - last[1] >= settle:
                break
            time.sleep(0.05)
        self.emit("h.quiescent")

    # --- pause points
    def arm(self, point):
        (self.pausedir / point).touch()

    def disarm(self, point):
        (self.pausedir / point).unlink()

    def wait_reached(self, point, p, timeout=10):
        f = self.pausedir / f"{point}.{self.pids[p]}.reached"
        t0 = time.time()
        while not f.exists() and time.time() - t0 < timeout:
            time.sleep(0.005)
        return f.exists()

    def go(self, point, p):
        (self.pausedir / f"{point}.{self.pids[p]}.go").touch()

    def close(self):
        for p, q in self.procs.items():
            if q.poll() is None:
                try:
                    self.send(p, op="quit")
                    q.wait(timeout=3)
                except Exception:
                    q.kill()
        for d in self.jobsroot.glob("*/*.end") if self.jobsroot.exists() else []:
            pass
        # stand-in jobs still running
        if self.jobsroot.exists():
            for pidf in self.jobsroot.glob("*/*.pid"):
                try:
                    os.kill(json.loads(pidf.read_text())["pid"], signal.SIGKILL)
                except Exception:
                    pass
        ev = self.events()
        shutil.rmtree(self.root, ignore_errors=True)
        return {"wl": {"owner": self.owner, "req": self.req0, "total": self.total}, "ev": ev, "problems": self.problems}


# ---------------------------------------------------------------- scenarios
def sc_contention():
    """two schedulers, one unit: the second job gets the token when the first one gives it back"""
    w = World(1, {"a": "p1", "b": "p2"}, {"a": 1, "b": 1})
    w.start("p1"); w.start("p2")
    w.submit("a"); w.submit("b")
    w.acquire("a"); w.acquire("b")
    m = w.mark()
    w.startjob("a"); w.endjob("a"); w.release("a")
    w.told("b", m, 10)
    w.acquire("b"); w.startjob("b"); w.endjob("b"); w.release("b")
    w.quiescent()
    return w.close()


def sc_halfwritten():
    """the other scheduler's observer looks at a token file between its creation and its first write"""
    w = World(1, {"a": "p1", "b": "p2"}, {"a": 1, "b": 1})
    w.start("p1"); w.start("p2")
    w.submit("a"); w.submit("b")
    w.arm("create.opened")
    w.send("p1", op="acquire", job="a")
    w.wait_reached("create.opened", "p1")
    time.sleep(0.5)  # the created event reaches p2's observer while the file is empty
    w.disarm("create.opened")
    w.go("create.opened", "p1")
    w.recv("p1")
    w.acquire("b")
    m = w.mark()
    w.startjob("a"); w.endjob("a"); w.release("a")
    w.told("b", m, 10)
    w.quiescent()
    return w.close()


def sc_owner_dies_running():
    """the scheduler dies while its job holds the token and runs; the job ends later: the token comes back"""
    w = World(1, {"a": "p1", "b": "p2"}, {"a": 1, "b": 1})
    w.start("p1"); w.start("p2")
    w.submit("a"); w.acquire("a"); w.startjob("a")
    w.kill("p1")
    w.submit("b"); w.acquire("b")
    m = w.mark()
    w.endjob("a")
    w.told("b", m)
    w.quiescent()
    w.acquire("b"); w.release("b")
    w.quiescent(0.3)
    return w.close()


def sc_orphan_killed():
    """the scheduler dies while its job runs, then the job itself is killed (its pid file stays behind); a scheduler that
    was there and one that starts afterwards both see the token come back"""
    w = World(1, {"a": "p1", "b": "p2", "c": "p3"}, {"a": 1, "b": 1, "c": 1})
    w.start("p1"); w.start("p2")
    w.submit("a"); w.acquire("a"); w.startjob("a")
    w.submit("b"); w.acquire("b")
    w.kill("p1")
    m = w.mark()
    w.killjob("a")
    w.told("b", m)
    w.quiescent()
    r = w.acquire("b")
    if r and r.get("acquired"):
        w.startjob("b")
        w.kill("p2")
        m = w.mark()
        w.killjob("b")
        w.start("p3")           # learns about the orphan's token file from the directory, after the job is gone
        if w.procs["p3"].poll() is None:
            w.submit("c")
            w.wait_event(lambda r: r["e"] == "tok.file.delete" and r.get("job") == "b", 20, m)
            w.quiescent()
            r = w.acquire("c")
            if r and r.get("acquired"):
                w.release("c")
    w.quiescent(0.3)
    return w.close()


def sc_release_raced():
    """the job has ended; its scheduler releases the token (recount, the file is there) while the reclaim thread of another
    scheduler, which was watching the job, removes the token file: exactly between the test and the removal of the owner.
    The release must go through: the amount comes back and the owner's waiting job is told"""
    w = World(1, {"a": "p1", "b": "p1"}, {"a": 1, "b": 1})
    w.start("p1"); w.start("p2")
    w.submit("a"); w.acquire("a"); w.startjob("a")
    w.wait_event(lambda r: r["e"] == "tok.evt.cached" and r.get("p") == "p2" and r.get("job") == "a", 5)
    w.submit("b")
    w.acquire("b")                         # refused: b waits
    w.suspend("p2")
    w.endjob("a")
    w.arm("delete.checked")
    w.send("p1", op="release", job="a")
    reached = w.wait_reached("delete.checked", "p1")
    w.disarm("delete.checked")
    m = w.mark()
    w.resume("p2")
    if reached:
        w.wait_event(lambda r: r["e"] == "tok.file.delete" and r.get("p") == "p2" and r.get("job") == "a", 10, m)
        time.sleep(0.2)
        w.go("delete.checked", "p1")
    w.recv("p1")
    w.told("b", m, 6)
    w.quiescent()
    r = w.acquire("b")
    if r and r.get("acquired"):
        w.startjob("b"); w.endjob("b"); w.release("b")
    w.quiescent()
    return w.close()


def sc_late_start_ended():
    """a job has ended but its scheduler has not given the token back yet (the token file is still there, the pid file is
    gone) when another scheduler starts: the first count of the newcomer finds the file, the reclaim thread it starts removes
    it at once -- before the newcomer watches the directory. The newcomer must not go on believing that the unit is taken"""
    w = World(1, {"a": "p1", "b": "p2"}, {"a": 1, "b": 1})
    w.start("p1")
    w.submit("a"); w.acquire("a"); w.startjob("a")
    w.endjob("a")
    w.arm("init.counted")
    m = w.mark()
    w.start("p2", wait=False)
    reached = w.wait_reached("init.counted", "p2", 20)
    w.disarm("init.counted")
    if reached:
        w.wait_event(lambda r: r["e"] == "tok.file.delete" and r.get("p") == "p2" and r.get("job") == "a", 10, m)
        time.sleep(0.2)
        w.go("init.counted", "p2")
    w.started("p2")
    w.submit("b")
    w.release("a")
    w.quiescent()
    r = w.acquire("b")
    if r and r.get("acquired"):
        w.startjob("b"); w.endjob("b"); w.release("b")
    w.quiescent()
    return w.close()


def sc_two_killed_orphans():
    """two jobs of a dead scheduler are killed (their pid files stay behind); a scheduler that starts afterwards finds two
    token files at once: its first recount starts two reclaim threads at the same time, both of which have to rebuild a
    process from a pid file -- the first use of the process-handler table of that scheduler, twice at once"""
    w = World(2, {"a": "p1", "b": "p1", "c": "p2"}, {"a": 1, "b": 1, "c": 2})
    w.start("p1")
    w.submit("a"); w.submit("b")
    w.acquire("a"); w.startjob("a")
    w.acquire("b"); w.startjob("b")
    w.kill("p1")
    w.killjob("a"); w.killjob("b")
    m = w.mark()
    w.start("p2")
    if w.procs["p2"].poll() is None:
        w.wait_event(lambda r: r["e"] == "tok.file.delete" and r.get("job") == "a", 15, m)
        w.wait_event(lambda r: r["e"] == "tok.file.delete" and r.get("job") == "b", 15, m)
        w.quiescent()
        w.submit("c")
        r = w.acquire("c")
        if r and r.get("acquired"):
            w.release("c")
    w.quiescent(0.3)
    return w.close()


def sc_late_start_two():
    """a scheduler starts while two jobs of another one hold the token: its first recount starts two reclaim threads at
    once (first use of the process handlers in that process); the jobs end one after the other"""
    w = World(3, {"a": "p1", "b": "p1", "c": "p2"}, {"a": 1, "b": 1, "c": 3})
    w.start("p1")
    w.submit("a"); w.submit("b"); w.acquire("a"); w.acquire("b"); w.startjob("a"); w.startjob("b")
    w.kill("p1")
    w.start("p2")
    w.submit("c"); w.acquire("c")
    m = w.mark()
    w.endjob("a")
    w.wait_event(lambda r: r["e"] == "tok.file.delete" and r.get("job") == "a", 20, m)
    w.quiescent()
    w.endjob("b")
    w.told("c", m)
    w.quiescent()
    r = w.acquire("c")
    if r and r.get("acquired"):
        w.release("c")
    w.quiescent(0.3)
    return w.close()


def sc_dies_mid_create():
    """the scheduler is killed between the creation of the token file and its first write"""
    w = World(1, {"a": "p1", "b": "p2", "c": "p3"}, {"a": 1, "b": 1, "c": 1})
    w.start("p1"); w.start("p2")
    w.submit("a"); w.submit("b")
    w.arm("create.opened")
    w.send("p1", op="acquire", job="a")
    w.wait_reached("create.opened", "p1")
    w.kill("p1")
    w.disarm("create.opened")
    time.sleep(0.3)
    r = w.acquire("b")
    if r and r.get("acquired"):
        w.release("b")
    w.start("p3")
    if w.procs["p3"].poll() is None:
        w.submit("c"); r = w.acquire("c")
        if r and r.get("acquired"):
            w.release("c")
    w.quiescent()
    return w.close()


def sc_partial_returns():
    """capacity 2 held by two orphan jobs of a dead scheduler; a job asking for 2 gets it when both have ended"""
    w = World(2, {"a": "p1", "b": "p1", "c": "p2"}, {"a": 1, "b": 1, "c": 2})
    w.start("p1"); w.start("p2")
    w.submit("a"); w.submit("b"); w.acquire("a"); w.acquire("b"); w.startjob("a"); w.startjob("b")
    w.submit("c"); w.acquire("c")
    w.kill("p1")
    m = w.mark()
    w.endjob("a")
    w.wait_event(lambda r: r["e"] == "tok.file.delete" and r.get("job") == "a", 20, m)     # (the first unit comes back alone)
    w.endjob("b")
    w.told("c", m)
    w.quiescent()
    r = w.acquire("c")
    if r and r.get("acquired"):
        w.release("c")
    w.quiescent(0.3)
    return w.close()


def sc_mixed():
    """capacity 2, requests 1, 1, 2 from three schedulers, aborted attempts in between"""
    w = World(2, {"a": "p1", "b": "p2", "c": "p3"}, {"a": 1, "b": 1, "c": 2})
    w.start("p1"); w.start("p2"); w.start("p3")
    w.submit("a"); w.submit("b"); w.submit("c")
    w.acquire("a"); w.acquire("c"); w.acquire("b"); w.acquire("c")
    w.startjob("a"); w.startjob("b")
    w.endjob("a"); w.release("a"); w.acquire("c")
    m = w.mark()
    w.endjob("b"); w.release("b")
    w.told("c", m, 10)
    w.quiescent()
    r = w.acquire("c")
    if r and r.get("acquired"):
        w.startjob("c"); w.endjob("c"); w.release("c")
    w.quiescent(0.3)
    return w.close()


def sc_race_in_create():
    """the second scheduler tries to take the token while the first one is inside the creation of its token file"""
    w = World(1, {"a": "p1", "b": "p2"}, {"a": 1, "b": 1})
    w.start("p1"); w.start("p2")
    w.submit("a"); w.submit("b")
    w.arm("create.opened")
    w.send("p1", op="acquire", job="a")
    w.wait_reached("create.opened", "p1")
    w.disarm("create.opened")
    w.send("p2", op="acquire", job="b")      # must wait for the inter-process lock
    time.sleep(1.0)
    w.go("create.opened", "p1")
    ra, rb = w.recv("p1"), w.recv("p2")
    if ra and ra.get("acquired"):
        w.startjob("a"); w.endjob("a"); w.release("a")
    if rb and rb.get("acquired"):
        w.startjob("b"); w.endjob("b"); w.release("b")
    w.quiescent()
    return w.close()


def sc_enlarged():
    """a job waits for more than the token has; another scheduler declares the token again with a larger total: the job
    is told, takes the token and runs"""
    w = World(1, {"a": "p1"}, {"a": 2})
    w.start("p1")
    w.submit("a")
    m = w.mark()
    w.start("p2", total=3)
    w.told("a", m, 10)
    w.quiescent()
    w.acquire("a"); w.startjob("a"); w.endjob("a"); w.release("a")
    w.quiescent()
    return w.close()


def sc_enlarged_while_held():
    """one unit, held by a running job while a second job waits; the token is declared again with two units"""
    w = World(1, {"a": "p1", "b": "p1"}, {"a": 1, "b": 1})
    w.start("p1")
    w.submit("a"); w.submit("b")
    w.acquire("a"); w.startjob("a")
    w.acquire("b")
    m = w.mark()
    w.start("p2", total=2)
    w.told("b", m, 10)
    w.acquire("b"); w.startjob("b")
    w.endjob("a"); w.release("a"); w.endjob("b"); w.release("b")
    w.quiescent()
    return w.close()


def sc_larger_again():
    """a job runs with one unit, ends, and comes back asking for three (same token file name) while another scheduler,
    which had seen it hold one, is suspended; that scheduler then asks for two of the four units: refused"""
    w = World(4, {"a": "p1", "b": "p2"}, {"a": 1, "b": 2})
    w.start("p1"); w.start("p2")
    w.submit("a"); w.acquire("a"); w.startjob("a")
    w.wait_event(lambda r: r["e"] == "tok.evt.cached" and r.get("p") == "p2" and r.get("job") == "a", 5)
    w.suspend("p2")
    w.endjob("a"); w.release("a")
    w.resubmit("a", 3); w.acquire("a"); w.startjob("a")
    w.resume("p2")
    w.quiescent()
    w.submit("b")
    r = w.acquire("b")
    if r and r.get("acquired"):
        w.startjob("b"); w.endjob("b"); w.release("b")
    w.endjob("a"); w.release("a")
    w.quiescent()
    return w.close()


def sc_shrunk_at_start():
    """a scheduler declares the token with 3 units; before it watches the directory another scheduler declares the same token
    with 1 unit (token.info is rewritten unobserved). What is on disk rules: both then share one unit"""
    w = World(3, {"a": "p1", "b": "p2"}, {"a": 1, "b": 1})
    w.arm("init.counted")
    w.start("p1", wait=False)
    reached = w.wait_reached("init.counted", "p1", 20)
    w.disarm("init.counted")
    w.start("p2", total=1)
    if reached:
        w.go("init.counted", "p1")
    w.started("p1")
    w.submit("a"); w.acquire("a"); w.startjob("a")
    w.submit("b")
    r = w.acquire("b")                  # the only unit is held: refused
    if r and r.get("acquired"):
        w.startjob("b"); w.endjob("b"); w.release("b")
    m = w.mark()
    w.endjob("a"); w.release("a")
    w.told("b", m, 10)
    w.quiescent()
    r = w.acquire("b")
    if r and r.get("acquired"):
        w.startjob("b"); w.endjob("b"); w.release("b")
    w.quiescent()
    return w.close()


def sc_missing_at_release():
    """a job ends; the reclaim thread of another scheduler, which watched it, removes its token file before its own scheduler
    releases: the release finds the file missing. A second job of the same scheduler waits for the unit: it must be told (the
    deletion event is not for it to act upon: the token is still held in its books until the release)"""
    w = World(1, {"a": "p1", "b": "p1"}, {"a": 1, "b": 1})
    w.start("p1"); w.start("p2")
    w.submit("a"); w.acquire("a"); w.startjob("a")
    w.wait_event(lambda r: r["e"] == "tok.evt.cached" and r.get("p") == "p2" and r.get("job") == "a", 5)
    w.submit("b")
    w.acquire("b")                         # refused: b waits
    m = w.mark()
    w.endjob("a")
    w.wait_event(lambda r: r["e"] == "tok.file.delete" and r.get("p") == "p2" and r.get("job") == "a", 15, m)
    time.sleep(0.4)                        # (the deletion event has reached p1)
    m = w.mark()
    w.release("a")
    w.told("b", m, 6)
    w.quiescent()
    r = w.acquire("b")
    if r and r.get("acquired"):
        w.startjob("b"); w.endjob("b"); w.release("b")
    w.quiescent()
    return w.close()


def sc_again_stale_event():
    """a job ends, its scheduler gives the token back and takes it again for the same job at once (a failed job submitted
    again: same job, same token file name) -- before its own observer thread has handled the deletion event of the release.
    The late event must not be taken for the deletion of the token just taken: the scheduler would forget the file, learn
    about it again from the creation event as if it were somebody else's, start a reclaim thread for its own job -- whose
    run lock does not exclude a thread of the same process -- and that thread, finding no pid file yet, would remove the
    token file of the job that is being started"""
    w = World(4, {"a": "p1", "b": "p2"}, {"a": 1, "b": 2})
    w.start("p1"); w.start("p2")
    w.submit("a"); w.acquire("a"); w.startjob("a")
    w.wait_event(lambda r: r["e"] == "tok.evt.cached" and r.get("p") == "p2" and r.get("job") == "a", 5)
    w.endjob("a")
    w.arm("evt.deleted")
    w.release("a")
    r1 = w.wait_reached("evt.deleted", "p1", 10)
    w.wait_reached("evt.deleted", "p2", 10)
    w.disarm("evt.deleted")
    w.go("evt.deleted", "p2")
    # (the thread of p2 that watched the first run has seen it end)
    w.wait_event(lambda r: r["e"] in ("tok.watch.reclaim", "tok.watch.keep") and r.get("p") == "p2" and r.get("job") == "a", 10)
    m = w.mark()
    w.resubmit("a", 3); w.acquire("a")
    if r1:
        w.go("evt.deleted", "p1")       # the observer of p1 now handles: deleted (of the release), created, modified
    time.sleep(0.6)
    w.quiescent(0.5)
    w.startjob("a")
    w.submit("b")
    r = w.acquire("b")                  # 3 of 4 units are held: refused
    if r and r.get("acquired"):
        w.startjob("b"); w.endjob("b"); w.release("b")
    w.endjob("a"); w.release("a")
    w.quiescent()
    return w.close()


def sc_again_stale_foreign():
    """the start of a job is aborted after its token was taken: the job lock is given back first, and the thread of another
    scheduler that waited for it finds no pid file and removes the token file before the owner releases (which then finds
    the file missing). The owner takes the token again for the same job before its observer has handled that deletion:
    the late event must not make it forget the token it holds"""
    w = World(4, {"a": "p1", "b": "p2"}, {"a": 3, "b": 2})
    w.start("p1"); w.start("p2")
    w.submit("a"); w.acquire("a")
    w.wait_event(lambda r: r["e"] == "tok.evt.cached" and r.get("p") == "p2" and r.get("job") == "a", 5)
    w.arm("evt.deleted")
    m = w.mark()
    w.cmd("p1", op="release", job="a", gap=1.0)
    r1 = w.wait_reached("evt.deleted", "p1", 10)
    w.wait_reached("evt.deleted", "p2", 5)
    w.disarm("evt.deleted")
    w.go("evt.deleted", "p2")
    w.resubmit("a", 3); w.acquire("a")
    if r1:
        w.go("evt.deleted", "p1")
    time.sleep(0.6)
    w.quiescent(0.5)
    w.startjob("a")
    w.submit("b")
    r = w.acquire("b")                  # 3 of 4 units are held: refused
    if r and r.get("acquired"):
        w.startjob("b"); w.endjob("b"); w.release("b")
    w.endjob("a"); w.release("a")
    w.quiescent()
    return w.close()


def sc_random(seed):
    """a random walk of two schedulers and three jobs over the life of a token (submit, acquire, start, abort, end, release,
    submit again asking for another amount), commands to the two processes being issued in pairs at the same time; random
    short waits let the observer and reclaim threads fall anywhere between the commands. Everything is driven to its end;
    the whole log must be a behaviour of XpmTokenFS"""
    import random

    rng = random.Random(seed)
    total = rng.choice([1, 2, 2, 3, 4])
    jobs = ["a", "b", "c"]
    owner = {"a": "p1", "b": "p2", "c": rng.choice(["p1", "p2"])}
    req = {j: rng.randint(1, total) for j in jobs}
    w = World(total, owner, req)
    w.start("p1"); w.start("p2")
    st = {j: "idle" for j in jobs}
    again = {j: 0 for j in jobs}

    def enabled(j):
        return {"idle": ["submit"], "submitted": ["acquire"], "holding": ["startjob", "startjob", "abort"], "running": ["endjob"],
                "ended": ["release"], "released": ["resubmit"] if again[j] < 1 and sum(again.values()) < 1 else []}[st[j]]

    def begin(j, op):
        """sends the command; returns what to do when its answer comes"""
        p = owner[j]
        if op == "submit":
            w.emit("h.submit", job=j, p=p)
            w.send(p, op="submit", job=j, count=w.req[j])
            return lambda r: st.__setitem__(j, "submitted")
        if op == "resubmit":
            again[j] += 1
            c = w.req[j]       # (the same amount: the model gives a late event about the former file the amount of the present one)
            w.emit("h.resubmit", job=j, count=c)
            w.req[j] = c
            w.emit("h.submit", job=j, p=p)
            w.send(p, op="submit", job=j, count=c)
            return lambda r: st.__setitem__(j, "submitted")
        if op == "acquire":
            w.send(p, op="acquire", job=j)
            return lambda r: st.__setitem__(j, "holding") if r and r.get("acquired") else None
        if op in ("abort", "release"):
            w.send(p, op="release", job=j)
            return lambda r: st.__setitem__(j, "released")
        raise AssertionError(op)

    def step_one(j, op):
        if op == "startjob":
            w.startjob(j); st[j] = "running"
        elif op == "endjob":
            w.endjob(j); st[j] = "ended"
        else:
            done = begin(j, op)
            done(w.recv(owner[j]))

    for _ in range(rng.randint(10, 24)):
        cands = [(j, op) for j in jobs for op in enabled(j)]
        if not cands:
            break
        j, op = rng.choice(cands)
        others = [(k, o) for k, o in cands if owner[k] != owner[j] and o not in ("startjob", "endjob") and not (o == op == "resubmit")]
        if op not in ("startjob", "endjob") and others and rng.random() < 0.5:
            k, o = rng.choice(others)             # two commands at the same time, one per process
            d1, d2 = begin(j, op), begin(k, o)
            d1(w.recv(owner[j])); d2(w.recv(owner[k]))
        else:
            step_one(j, op)
        if rng.random() < 0.4:
            time.sleep(rng.choice([0.0, 0.01, 0.05, 0.2]))
    # everything to its end
    for _ in range(40):
        busy = [j for j in jobs if st[j] not in ("idle", "released")]
        if not busy:
            break
        for j in busy:
            if st[j] == "submitted":
                step_one(j, "acquire")
            elif st[j] == "holding":
                step_one(j, "startjob")
            elif st[j] == "running":
                step_one(j, "endjob")
            elif st[j] == "ended":
                step_one(j, "release")
        time.sleep(0.05)
    else:
        w.problems.append(f"random walk {seed}: jobs left {st}")
    w.quiescent()
    r = w.close()
    r["seed"] = seed
    return r


def sc_info_torn():
    """the only scheduler dies while it rewrites token.info (the file is left empty: truncated, not yet written); the
    next scheduler declares the token again and uses it"""
    w = World(1, {"a": "p1", "b": "p2"}, {"a": 1, "b": 1})
    w.start("p1")
    w.kill("p1")
    (w.tokdir / "token.info").write_text("")
    w.emit("h.note", what="token.info left empty by the dead writer")
    r = w.start("p2")
    if r and r.get("ok") and w.procs["p2"].poll() is None:
        w.submit("b")
        r = w.acquire("b")
        if r and r.get("acquired"):
            w.startjob("b"); w.endjob("b"); w.release("b")
    w.quiescent()
    return w.close()


SCENARIOS = {"shrunk_at_start": sc_shrunk_at_start, "missing_at_release": sc_missing_at_release, "again_stale_foreign": sc_again_stale_foreign, "again_stale_event": sc_again_stale_event, "late_start_ended": sc_late_start_ended, "release_raced": sc_release_raced, "two_killed_orphans": sc_two_killed_orphans, "larger_again": sc_larger_again, "info_torn": sc_info_torn, "enlarged": sc_enlarged, "enlarged_while_held": sc_enlarged_while_held, "orphan_killed": sc_orphan_killed, "late_start_two": sc_late_start_two, "race_in_create": sc_race_in_create, "contention": sc_contention, "halfwritten": sc_halfwritten, "owner_dies_running": sc_owner_dies_running,
             "dies_mid_create": sc_dies_mid_create, "partial_returns": sc_partial_returns, "mixed": sc_mixed}

if __name__ == "__main__":
    import sys

    (VERIF / ".work").mkdir(exist_ok=True)
    for name in sys.argv[1:] or list(SCENARIOS):
        r = SCENARIOS[name]()
        print("==", name, r["problems"])
        for e in r["ev"]:
            print("  ", {k: v for k, v in e.items() if k not in ("name",)})


# ---------------------------------------------------------------- full runs: real experiments, real schedulers, real jobs
XP_PROG = VERIF / "xv" / "procs" / "xp_token.py"


def full_run(total, procs, gate_order, settle=0.4):
    """procs: {xpname: [[jobname, n, count], ...]}; gate_order: job names in the order their bodies are allowed to finish.
    Returns the merged event list in the notation of XpmTokenFS_Trace plus problems"""
    root = Path(tempfile.mkdtemp(prefix="xvfull-", dir=os.environ.get("XV_SCRATCH_DISK", str(VERIF / ".work"))))
    log = root / "events.ndjson"
    gatedir = root / "gates"
    gatedir.mkdir()
    env = dict(os.environ, PYTHONPATH=f"{REPO_SRC}:{VERIF}", XPM_VERIF="1", XPM_VERIF_TRACE=str(log), XPM_WORKDIR=str(root / "local"))
    env.pop("XV_PROC", None)
    ps = {}
    problems = []
    nname = {}
    try:
        for name, jobs in procs.items():
            for j, n, c in jobs:
                nname[f"x{n}"] = j
            ps[name] = subprocess.Popen(["/venv/bin/python", "-W", "ignore", str(XP_PROG), str(root / f"ws-{name}"), name, str(total),
                                         json.dumps(jobs), str(gatedir)], env=env, stdout=subprocess.DEVNULL, stderr=subprocess.DEVNULL)

        def events():
            if not log.exists():
                return []
            return [json.loads(x) for x in complete_lines(log.read_text()) if x.strip()]

        def wait(pred, timeout=60):
            t0 = time.time()
            while time.time() - t0 < timeout:
                if pred(events()):
                    return True
                time.sleep(0.05)
            return False

        # a body can only begin once its scheduler holds the token for it; each body that has begun is allowed to
        # finish a little later (so that the others demonstrably wait)
        released = set()
        t0 = time.time()
        while len(released) < len(nname) and time.time() - t0 < 150:
            begun = [e.get("p") for e in events() if e.get("e") == "begin" and e.get("p") not in released]
            for x in begun:
                time.sleep(settle)
                (gatedir / f"gate.{x}").touch()
                released.add(x)
            if all(p.poll() is not None for p in ps.values()):
                break
            time.sleep(0.05)
        if len(released) < len(nname):
            problems.append(f"bodies that never began: {sorted(nname[x] for x in set(nname) - released)}")
        for name, p in ps.items():
            try:
                p.wait(timeout=120)
            except subprocess.TimeoutExpired:
                problems.append(f"experiment {name} did not finish")
                p.kill()
        ev = events()
    finally:
        for p in ps.values():
            if p.poll() is None:
                p.kill()
        shutil.rmtree(root, ignore_errors=True)
    # normalise
    pid2proc = {}
    ident2job = {}
    for e in ev:
        if e.get("e") == "h.start":
            pid2proc[e["pid"]] = e["proc"]
        if e.get("e") == "h.ident":
            ident2job[e["ident"]] = e["job"]
    out = []
    owner, req = {}, {}
    for name, jobs in procs.items():
        for j, n, c in jobs:
            owner[j] = name
            req[j] = c
    for e in ev:
        k = e.get("e")
        r = {"e": k}
        if k in ("begin", "end", "fail"):
            r = {"e": {"begin": "h.jobstart", "end": "h.jobend", "fail": "h.jobend"}[k], "job": nname.get(e.get("p"), "?")}
        elif k == "h.ident" or k == "h.states":
            r = {"e": "h.note"}
        else:
            if "proc" in e:
                r["p"] = e["proc"]
            elif "pid" in e:
                r["p"] = pid2proc.get(e["pid"], "?")
            if "name" in e:
                if not e["name"].endswith(".token"):
                    if k == "tok.evt.error":
                        problems.append(f"observer raised on {e['name']}")
                    continue
                r["job"] = ident2job.get(e["name"].replace(".token", ""), e["name"])
            elif "job" in e:
                r["job"] = e["job"]
            if k in ("sched.dep.add", "sched.dep.check"):
                if e.get("origin") != "CounterToken":
                    continue
                r["job"] = ident2job.get(e.get("ident"), e.get("job", "?"))
            for f in ("available", "by", "new", "status", "total", "delta"):
                if f in e:
                    r[f] = e[f]
        out.append(r)
    states = {e["proc"]: e["states"] for e in ev if e.get("e") == "h.states"}
    for name in procs:
        if name not in states:
            problems.append(f"experiment {name} reported no final states")
        elif any(s != "DONE" for s in states[name]):
            problems.append(f"experiment {name}: final states {states[name]}")
    return {"wl": {"owner": owner, "req": req, "total": total}, "ev": out, "problems": problems}


def full_one_unit():
    return full_run(1, {"p1": [["a", 1, 1], ["b", 2, 1]], "p2": [["c", 3, 1], ["d", 4, 1]]}, ["a", "b", "c", "d"])


def full_mixed():
    return full_run(2, {"p1": [["a", 1, 1], ["b", 2, 2]], "p2": [["c", 3, 1], ["d", 4, 2]]}, [])


SCENARIOS["full_one_unit"] = full_one_unit
SCENARIOS["full_mixed"] = full_mixed
