"""Workload plans for the scheduler engines"""
from .sched import P, submit_all

PLANS = {}

# --- dependency graphs, every embedding of an upstream task (C04)
EMBEDDINGS = ["direct", "list", "dict", "nested", "nestedlist", "pre", "init", "explicit", "meta", "listlist", "listdict", "taskobj"]
for how in EMBEDDINGS:
    PLANS[f"chain2-{how}"] = P({"a": {}, "b": {"deps": {"a": how}}}, submit_all("ab"))
    PLANS[f"chain2out-{how}"] = P({"a": {"out": True}, "b": {"deps": {"a": how}}}, submit_all("ab"))
PLANS["chain3"] = P({"a": {}, "b": {"deps": {"a": "list"}}, "c": {"deps": {"b": "dict"}}}, submit_all("abc"))
PLANS["fork"] = P({"a": {"out": True}, "b": {"deps": {"a": "direct"}}, "c": {"deps": {"a": "nested"}}}, submit_all("abc"))
PLANS["join"] = P({"a": {}, "b": {"out": True}, "c": {"deps": {"a": "pre", "b": "init"}}}, submit_all("abc"))
PLANS["diamond"] = P(
    {"a": {}, "b": {"deps": {"a": "direct"}}, "c": {"deps": {"a": "list"}}, "d": {"deps": {"b": "dict", "c": "nested"}}},
    submit_all("abcd"),
)

# a flat and a nested embedding side by side: the flat upstream ends first, the nested ones still run
PLANS["mixed-depth"] = P({"a": {}, "b": {}, "c": {}, "d": {"deps": {"a": "list", "b": "listlist", "c": "listdict"}}}, submit_all("abcd"))
# an output handed on by a second task (a -> b passes a's output on -> c consumes it: c must wait for b)
PLANS["chain-pass"] = P({"a": {"out": True}, "b": {"deps": {"a": "direct"}, "pass": True}, "c": {"deps": {"b": "direct"}}}, submit_all("abc"))
PLANS["chain-pass-list"] = P({"a": {"out": True}, "b": {"deps": {"a": "direct"}, "pass": True}, "c": {"deps": {"b": "list"}}, "d": {"deps": {"a": "dict"}}},
                             submit_all("adbc"))     # (d is submitted before b re-marks a's output as its own)
# a dependent submitted when one of its two upstream jobs has already finished
PLANS["join-late"] = P({"a": {}, "b": {}, "c": {"deps": {"a": "direct", "b": "list"}}},
                       [["submit", "a"], ["waitjob", "a"], ["submit", "b"], ["submit", "c"], ["wait"]])
PLANS["join-late2"] = P({"a": {}, "b": {}, "c": {"deps": {"b": "direct", "a": "dict"}}, "d": {"deps": {"a": "pre", "b": "init"}}},
                        [["submit", "a"], ["waitjob", "a"], ["submit", "b"], ["submit", "c"], ["submit", "d"], ["wait"]])

# --- failures (C06, C07)
PLANS["chain3-fail-a"] = P({"a": {"codes": [1]}, "b": {"deps": {"a": "direct"}}, "c": {"deps": {"b": "direct"}}}, submit_all("abc"))
PLANS["chain3-fail-b"] = P({"a": {}, "b": {"deps": {"a": "direct"}, "codes": [1]}, "c": {"deps": {"b": "list"}}}, submit_all("abc"))
PLANS["fork-fail"] = P({"a": {"codes": [1]}, "b": {"deps": {"a": "dict"}}, "c": {}}, submit_all("abc"))
PLANS["diamond-fail-b"] = P(
    {"a": {}, "b": {"deps": {"a": "direct"}, "codes": [1]}, "c": {"deps": {"a": "list"}}, "d": {"deps": {"b": "dict", "c": "nested"}}},
    submit_all("abcd"),
)
PLANS["late-dependent"] = P(
    {"a": {"codes": [1]}, "b": {"deps": {"a": "direct"}}},
    [["submit", "a"], ["waitjob", "a"], ["submit", "b"], ["wait"]],
)

# --- tokens (C08, C09, C06)
PLANS["tok1-2"] = P({"a": {"tok": {"t": 1}}, "b": {"tok": {"t": 1}}}, submit_all("ab"), {"t": 1})
PLANS["tok1-3"] = P({"a": {"tok": {"t": 1}}, "b": {"tok": {"t": 1}}, "c": {"tok": {"t": 1}}}, submit_all("abc"), {"t": 1})
PLANS["tok3-221"] = P({"a": {"tok": {"t": 2}}, "b": {"tok": {"t": 2}}, "c": {"tok": {"t": 1}}}, submit_all("abc"), {"t": 3})
PLANS["tok3-113"] = P({"a": {"tok": {"t": 1}}, "b": {"tok": {"t": 1}}, "c": {"tok": {"t": 3}}}, submit_all("abc"), {"t": 3})
PLANS["tok2-fail"] = P({"a": {"tok": {"t": 2}, "codes": [1]}, "b": {"tok": {"t": 1}}, "c": {"tok": {"t": 2}}}, submit_all("abc"), {"t": 2})
PLANS["tok-dep"] = P(
    {"a": {"tok": {"t": 1}}, "b": {"deps": {"a": "direct"}, "tok": {"t": 2}}, "c": {"tok": {"t": 2}}},
    submit_all("abc"), {"t": 2},
)
PLANS["tok2x2"] = P(
    {"a": {"tok": {"t": 1, "u": 1}}, "b": {"tok": {"t": 1, "u": 1}}, "c": {"tok": {"u": 1}}},
    submit_all("abc"), {"t": 1, "u": 1},
)
PLANS["tok-big"] = P({"a": {"tok": {"t": 1}}, "b": {"tok": {"t": 2}}}, submit_all("ab"), {"t": 2})

# --- duplicates, re-submission, job.wait (C05, C06)
PLANS["dup"] = P({"a": {}}, [["submit", "a"], ["submit", "a"], ["wait"]])
PLANS["dup-dep"] = P(
    {"a": {}, "b": {"deps": {"a": "direct"}}},
    [["submit", "a"], ["submit", "b"], ["submit", "a"], ["submit", "b"], ["wait"]],
)
PLANS["resubmit"] = P({"a": {"codes": [1, 0]}}, [["submit", "a"], ["waitjob", "a"], ["submit", "a"], ["wait"]])
PLANS["resubmit-dep"] = P(
    {"a": {"codes": [1, 0]}, "b": {"deps": {"a": "direct"}}},
    [["submit", "a"], ["waitjob", "a"], ["submit", "a"], ["submit", "b"], ["wait"]],
)
PLANS["resubmit-twice"] = P({"a": {"codes": [1, 0]}}, [["submit", "a"], ["waitjob", "a"], ["submit", "a"], ["submit", "a"], ["wait"]])
PLANS["resubmit-early"] = P({"a": {"codes": [1, 0]}}, [["submit", "a"], ["submit", "a"], ["submit", "a"], ["wait"]])
PLANS["waitjob"] = P({"a": {}, "b": {"deps": {"a": "list"}}}, [["submit", "a"], ["submit", "b"], ["waitjob", "b"], ["wait"]])

# --- later experiments, scheduler death and restart (C05, C11)
PLANS["rerun-done"] = P({"a": {}, "b": {"deps": {"a": "direct"}}}, submit_all("ab") + [["restart"]] + submit_all("ab"))
PLANS["rerun-failed"] = P(
    {"a": {"codes": [1, 0]}, "b": {"deps": {"a": "direct"}}}, submit_all("ab") + [["restart"]] + submit_all("ab")
)
PLANS["kill-restart"] = P(
    {"a": {}, "b": {"deps": {"a": "direct"}}},
    [["submit", "a"], ["submit", "b"], ["kill"], ["restart"], ["submit", "a"], ["submit", "b"], ["wait"]],
)
PLANS["kill-restart-tok"] = P(
    {"a": {"tok": {"t": 1}}, "b": {"tok": {"t": 1}}},
    [["submit", "a"], ["submit", "b"], ["kill"], ["restart"], ["submit", "a"], ["submit", "b"], ["wait"]],
    {"t": 1},
)

PLANS["rerun-rmdone"] = P(
    {"a": {"codes": [0, 1]}, "b": {"deps": {"a": "direct"}}},
    submit_all("ab") + [["rmdone", "a"], ["restart"]] + submit_all("ab"),
)
PLANS["rerun-rmdone-ok"] = P(
    {"a": {}, "b": {"deps": {"a": "list"}}, "c": {"deps": {"b": "direct"}}},
    submit_all("abc") + [["rmdone", "b"], ["restart"]] + submit_all("abc"),
)

# a job DONE through its marker whose upstream is re-run and fails afterwards, then submitted once more (C05: no second job)
PLANS["rerun-rmdone-dup"] = P(
    {"a": {"codes": [0, 1]}, "b": {"deps": {"a": "direct"}}},
    submit_all("ab") + [["rmdone", "a"], ["restart"], ["submit", "a"], ["submit", "b"], ["waitjob", "a"], ["submit", "b"], ["wait"]],
)

PLANS["kill-restart-fail"] = P(
    {"a": {"codes": [1]}, "b": {"deps": {"a": "direct"}}},
    [["submit", "a"], ["kill"], ["restart"], ["submit", "a"], ["submit", "b"], ["wait"]],
)
PLANS["kill-restart-early"] = P(
    {"a": {}, "b": {"deps": {"a": "list"}}, "c": {}},
    [["submit", "a"], ["submit", "c"], ["kill"], ["restart"], ["submit", "a"], ["submit", "b"], ["submit", "c"], ["wait"]],
)

# the output of a job of an earlier experiment of the same program used again without submitting that job again (C07: a
# failure that is only "by dependency" still makes the experiment fail)
PLANS["reuse-failed"] = P({"a": {"codes": [1]}, "b": {"deps": {"a": "direct"}}, "c": {}},
                          submit_all("a") + [["newxp"], ["submit", "b"], ["submit", "c"], ["wait"]])
PLANS["reuse-done"] = P({"a": {}, "b": {"deps": {"a": "list"}}}, submit_all("a") + [["newxp"], ["submit", "b"], ["wait"]])
PLANS["reuse-again"] = P({"a": {"codes": [1, 0]}, "b": {"deps": {"a": "direct"}}}, submit_all("a") + [["newxp"], ["submit", "a"], ["submit", "b"], ["wait"]])
PLANS["reuse-mixed"] = P({"a": {"codes": [1]}, "b": {"deps": {"a": "dict"}}, "c": {}}, submit_all("ac") + [["newxp"], ["submit", "c"], ["wait"], ["newxp"], ["submit", "b"], ["wait"]])

# duplicates of a job that is being adopted (its state must never look "failed" to a later submission)
PLANS["kill-restart-dup"] = P({"a": {}}, [["submit", "a"], ["kill"], ["restart"], ["submit", "a"], ["submit", "a"], ["submit", "a"], ["wait"]])
PLANS["kill-restart-dup-dep"] = P({"a": {}, "b": {"deps": {"a": "direct"}}},
                                  [["submit", "a"], ["kill"], ["restart"], ["submit", "a"], ["submit", "b"], ["submit", "a"], ["wait"]])

# --- Ctrl-C while the program waits (experiment.stop), then the same experiment again (C06, C11)
WS = ["wait", "sigint"]
PLANS["stop-restart"] = P({"a": {}, "b": {"deps": {"a": "direct"}}}, [["submit", "a"], ["submit", "b"], WS, ["restart"]] + submit_all("ab"))
PLANS["stop-restart-fail"] = P({"a": {"codes": [1, 0]}, "b": {"deps": {"a": "list"}}, "c": {}},
                               [["submit", "a"], ["submit", "b"], ["submit", "c"], WS, ["restart"]] + submit_all("abc"))
PLANS["stop-restart-tok"] = P({"a": {"tok": {"t": 1}}, "b": {"tok": {"t": 1}}},
                              [["submit", "a"], ["submit", "b"], WS, ["restart"]] + submit_all("ab"), {"t": 1})

# --- a job process killed from outside (no marker, stale pid file), in this run or adopted by the next one (C06, C07, C11)
PLANS["oom"] = P({"a": {"codes": [9]}, "b": {"deps": {"a": "direct"}}, "c": {}}, submit_all("abc"))
PLANS["oom-resubmit"] = P({"a": {"codes": [9, 0]}, "b": {"deps": {"a": "list"}}},
                          [["submit", "a"], ["waitjob", "a"], ["submit", "a"], ["submit", "b"], ["wait"]])
PLANS["oom-rerun"] = P({"a": {"codes": [9, 0]}, "b": {"deps": {"a": "direct"}}}, submit_all("ab") + [["restart"]] + submit_all("ab"))
PLANS["kill-restart-oom"] = P(
    {"a": {"codes": [9]}, "b": {"deps": {"a": "direct"}}},
    [["submit", "a"], ["submit", "b"], ["kill"], ["restart"], ["submit", "a"], ["submit", "b"], ["wait"]],
)

# --- the launcher cannot start the process of a job (C06, C07)
PLANS["startfail"] = P({"a": {"codes": [8]}, "b": {"deps": {"a": "direct"}}, "c": {}}, submit_all("abc"))
PLANS["startfail-tok"] = P({"a": {"codes": [8], "tok": {"t": 1}}, "b": {"tok": {"t": 1}}}, submit_all("ab"), {"t": 1})

QUICK = list(PLANS)
