"""Checks decided with XpmConfig.tla: C01 C02 C03 C14 C17 C20(identifier part)"""
import os as _os

REPO_SRC = _os.environ.get("XV_REPO_SRC", "/repo/src")
import copy
import hashlib
import json
import os
import random
import subprocess
import sys
import tempfile
from concurrent.futures import ProcessPoolExecutor
from pathlib import Path

from . import tlc
from .common import VERIF, Report, seed

GOLDEN = VERIF / "golden" / "identifiers.json"


# ---------------------------------------------------------------- workers (separate processes: real objects)
def _w_init():
    import logging
    import warnings

    warnings.filterwarnings("ignore")
    logging.disable(logging.CRITICAL)
    sys.stderr = open(os.devnull, "w")


def _w_observe(args):
    graph, sd, seal_root = args
    from . import cfgcheck

    rng = random.Random(sd)
    try:
        return cfgcheck.observe(graph, rng, seal_root)
    except Exception as e:
        return None, [f"exception while building / identifying: {e!r}"[:300]]


def _w_replay(args):
    beh, sd = args
    from . import cfgreplay

    try:
        return cfgreplay.replay(beh, random.Random(sd))
    except Exception as e:
        return {"what": f"exception: {e!r}"[:300]}


def _w_ids(args):
    """identifiers (raw, full) of every node, built with shuffled construction / dict insertion orders"""
    graph, sd = args
    from . import cfgreal as R

    rng = random.Random(sd)
    try:
        objs = R.build(graph, rng, shuffle_dicts=True)
        return {n: [o.__xpm__.raw_identifier.all.hex(), o.__xpm__.full_identifier.all.hex()] for n, o in objs.items()}
    except Exception as e:
        return {"error": repr(e)[:200]}


def _w_io(args):
    graph, sd = args
    from . import cfgio

    try:
        return cfgio.observe_io(graph, sd)
    except Exception as e:
        return None, [f"exception: {e!r}"[:300]]


def pool():
    return ProcessPoolExecutor(max_workers=16, initializer=_w_init)


# ---------------------------------------------------------------- graph generation
def graphs(n, sd, sizes=(1, 2, 3, 3, 4)):
    from . import cfgreal as R

    rng = random.Random(sd)
    return [R.rand_graph(rng, rng.choice(sizes)) for _ in range(n)]


def pre_heavy_graphs(n, sd):
    """Graphs where lightweight tasks are attached as pre-tasks at several nodes, in overlapping sequences"""
    rng = random.Random(sd)
    out = []
    for _ in range(n):
        nk, nl = rng.choice([1, 2, 3]), rng.choice([2, 3])
        ids = [str(i + 1) for i in range(nk + nl)]
        ks, lws = ids[:nk], ids[nk:]
        g = {}
        for i in ks:
            g[i] = {"cls": "K2", "vals": {"a": ["int", int(i)], "c": ["cfg", rng.choice(ks)] if rng.random() < 0.6 else ["none"], "v": ["int", 4]},
                    "meta": "none", "pre": [], "init": [], "task": "0"}
        same = rng.random() < 0.4      # distinct lightweight tasks with equal parameters are still distinct tasks
        for i in lws:
            g[i] = {"cls": "LW", "vals": {"k": ["int", 7 if same else int(i)], "c": ["none"]}, "meta": "none", "pre": [], "init": [], "task": "0"}
        g[ks[0]]["vals"]["c"] = ["cfg", ks[-1]] if nk > 1 else ["none"]
        for i in ks:
            k = rng.choice([1, 2, 3])
            seq = []
            for _ in range(k):
                x = rng.choice(lws)
                if x not in seq:
                    seq.append(x)
            g[i]["pre"] = seq
        out.append(g)
    return out


def producer_graphs(n, sd):
    """A consumer of a configuration marked as produced by a task that itself has pre-/init tasks: the producing
    task, its pre-tasks and (for the task itself) its init tasks are part of what is identified"""
    rng = random.Random(sd)
    out = []
    for _ in range(n):
        def node(cls, vals, **kw):
            d = {"cls": cls, "vals": vals, "meta": "none", "pre": [], "init": [], "task": "0"}
            d.update(kw)
            return d

        k = lambda a, c=("none",): {"a": ["int", a], "b": ["int", 5], "c": list(c), "d": ["dict", []], "e": ["none"], "f": ["none"], "g": ["none"],
                                    "l": ["list", []], "m": ["int", 0], "o": ["int", 9], "s": ["none"], "v": ["int", 3]}
        g = {
            "1": node("K", k(rng.choice([1, 2]), ("cfg", "2"))),                                    # consumer
            "2": node("K2", {"a": ["int", rng.choice([1, 2])], "c": ["none"], "v": ["int", 4]}, task="3"),   # produced by 3
            "3": node("T0", {"n": ["int", rng.choice([0, 1])], "x": ["none"]}),
            "4": node("LW", {"k": ["int", rng.choice([1, 2])], "c": ["none"]}),
            "5": node("LW", {"k": ["int", rng.choice([3, 4])], "c": ["none"]}),
        }
        shape = rng.choice(["pre", "pre2", "init", "both", "consumer-pre", "none"])
        if shape in ("pre", "both"):
            g["3"]["pre"] = ["4"]
        if shape == "pre2":
            g["3"]["pre"] = rng.choice([["4", "5"], ["5", "4"]])
        if shape in ("init", "both"):
            g["3"]["init"] = ["5"]
        if shape == "consumer-pre":
            g["1"]["pre"] = ["4"]
            g["2"]["pre"] = ["5"]
        if rng.random() < 0.3:
            g["1"]["vals"]["l"] = ["list", [["cfg", "2"]]]
        out.append(g)
    return out


def edit(g, rng):
    """One small random edit of a graph (may or may not be signature relevant -- TLC decides)"""
    from . import cfgreal as R

    g = copy.deepcopy(g)
    ids = sorted(g)
    n = rng.choice(ids)
    node = g[n]
    vals = node["vals"]
    kind = rng.choice(["scalar", "scalar", "meta", "child", "move", "swap", "key", "class", "pre", "sibling"])
    if node.get("dflt"):
        # the parent's own copy of a configuration-valued default: it can be edited in place, not replaced
        node["dflt"] = "edited"
        if kind == "class":
            kind = "scalar"
    if kind == "meta":
        node["meta"] = rng.choice([m for m in ("none", "true", "false") if m != node["meta"]])
    elif kind == "class" and node["cls"] in ("K2", "K2Old", "K2Older"):
        node["cls"] = rng.choice([c for c in ("K2", "K2Old", "K2Older") if c != node["cls"]])
    elif kind == "pre":
        lws = [i for i in ids if g[i]["cls"] in ("LW", "T0")]
        if lws:
            node["pre"] = [] if node["pre"] and rng.random() < 0.5 else sorted(set(node["pre"] + [rng.choice(lws)]))
    elif kind == "swap":
        for a in ("l", "li", "ll"):
            if a in vals and len(vals[a][1]) >= 2:
                vals[a][1][0], vals[a][1][1] = vals[a][1][1], vals[a][1][0]
                break
    elif kind == "move":  # an element moves between neighbouring containers
        if "ll" in vals and len(vals["ll"][1]) >= 2 and vals["ll"][1][0][1]:
            x = vals["ll"][1][0][1].pop()
            vals["ll"][1][1][1].insert(0, x)
        elif "dd" in vals and len(vals["dd"][1]) >= 2 and vals["dd"][1][0][1][1]:
            kv = vals["dd"][1][0][1][1].pop()
            if kv[0] not in [k for k, _ in vals["dd"][1][1][1][1]]:
                vals["dd"][1][1][1][1].append(kv)
        elif "l" in vals and "c" in vals and vals["l"][1]:
            vals["c"] = vals["l"][1].pop()
    elif kind == "key":
        for a in ("d", "ds", "dd"):
            if a in vals and vals[a][1]:
                used = [k for k, _ in vals[a][1]]
                free = [k for k in R.KEYS if k not in used]
                if free:
                    vals[a][1][0][0] = rng.choice(free)
                break
    elif kind == "sibling" and "s1" in vals:
        vals["s1"], vals["s2"] = vals["s2"], vals["s1"]
    elif kind == "child":
        for a in ("c", "g", "z", "x"):
            if a in vals and rng.random() < 0.6:
                vals[a] = ["cfg", rng.choice(ids)] if vals[a][0] == "none" or rng.random() < 0.5 else ["none"]
                if node["cls"] == "T1" and vals[a][0] == "none":
                    vals[a] = ["cfg", rng.choice(ids)]
                break
    else:
        cand = [a for a, v in vals.items() if v[0] in ("int", "str", "enum", "float", "none") and a != "v"]
        if cand:
            a = rng.choice(cand)
            v = vals[a]
            if v[0] == "int":
                vals[a] = ["int", rng.choice([x for x in (0, 1, 5, 6, 7, 9, -1) if x != v[1]])]
            elif v[0] == "str":
                vals[a] = ["str", rng.choice([x for x in R.STRS if x != v[1]])]
            elif v[0] == "enum":
                vals[a] = ["enum", "RED" if v[1] == "BLUE" else "BLUE"]
            elif v[0] == "float":
                vals[a] = ["float", rng.choice([x for x in ("0.5", "1.0", "-1.5") if x != v[1]])]
            elif a in ("e",):
                vals[a] = ["enum", "RED"]
            elif a in ("f",):
                vals[a] = ["float", "0.5"]
            elif a in ("s",):
                vals[a] = ["str", "x"]
            elif a in ("o",):
                vals[a] = ["int", 9]
    return g


# ---------------------------------------------------------------- TLC batches
def run_batch(module, cfgname, cases, shard=150):
    wd = tlc.workdir("cfgb")
    shards = [(k, cases[k : k + shard]) for k in range(0, len(cases), shard)]
    from concurrent.futures import ThreadPoolExecutor

    def one(item):
        k, part = item
        f = wd / f"c{k}.json"
        f.write_text(json.dumps(part))
        return k, tlc.tlc(module, cfgname, workers=1, env={"TRACE_FILE": str(f)}, timeout=1800)

    with ThreadPoolExecutor(max_workers=16) as ex:
        out = list(ex.map(one, shards))
    import shutil

    shutil.rmtree(wd, ignore_errors=True)
    return out


# ---------------------------------------------------------------- pieces
def schema_crosscheck(rep, prop):
    """The frozen schema module states which parameters are outside the signature; it must still be what
    experimaestro derives from the live classes"""
    tmp = tempfile.mktemp(suffix=".tla", dir=str(tlc.workdir("schema")))
    p = subprocess.run(["/venv/bin/python", "-W", "ignore", str(VERIF / "tools" / "gen_schema.py"), tmp],
                       env=dict(os.environ, PYTHONPATH=REPO_SRC + ":/verif"), capture_output=True, text=True)
    if p.returncode != 0:
        rep.violation(f"{prop}/schema/exception", "the schema classes cannot be introspected: " + p.stderr[-300:], None)
        return
    new, old = Path(tmp).read_text(), (VERIF / "spec" / "XpmSchema.tla").read_text()
    import shutil

    shutil.rmtree(Path(tmp).parent, ignore_errors=True)
    if new != old:
        diff = [(a, b) for a, b in zip(old.splitlines(), new.splitlines()) if a != b][:2]
        rep.violation(f"{prop}/schema/flags", "argument flags / type identifiers derived by experimaestro differ from the "
                      f"frozen schema (ignored, default, constant, generator, identifier): {diff}", {"diff": diff})


def model_check(rep, prop, module, cfgname, mine, note=""):
    res = tlc.tlc(module, cfgname, timeout=2400)
    rep.add_tlc(cfgname, res, note)
    if res.violation:
        if mine is None or res.violation[1] in mine:
            rep.violation(f"{prop}/model/{res.violation[1]}", f"TLC: {res.violation} in {cfgname}", {"tlc_tail": res.out[-3000:]})
    elif res.error:
        rep.machinery_failure(f"TLC failed on {cfgname}: {res.error}")
    return res


MISMATCH_FIELDS = ["stream", "pretasks", "loops", "sealed", "generated", "definitions", "instances"]
IO_PREFIX = {"C12": ("params.json:", "params.json (written", "state_dict:", "state_dict (written", "save/load:", "definition list", "exception"),
             "C13": ("instance()", "params.json as instance:", "exception")}


def io_conformance(rep, prop, n, sd):
    """C12 / C13: write + load every way, instantiate both ways; TLC validates the definition order and the
    instantiated sets, the isomorphism / call counts are compared with the abstract graph"""
    gs = graphs(n - n // 3, sd + 21) + pre_heavy_graphs(n // 3, sd + 22) + producer_graphs(n // 8, sd + 23)
    with pool() as ex:
        obs = list(ex.map(_w_io, [(g, sd * 13 + i) for i, g in enumerate(gs)], chunksize=10))
    cases, index = [], []
    for i, (case, problems) in enumerate(obs):
        rep.cov["evaluations"] += 1
        for p in problems:
            if p.startswith(IO_PREFIX[prop]):
                key = p.split(":")[0] + "/" + " ".join(w for w in p.split(":", 1)[-1].split() if not w.rstrip(".,").isdigit())[:60]
                rep.violation(f"{prop}/io/{key}", f"graph #{i}: {p}", {"graph": gs[i], "seed": sd * 13 + i, "io": True})
        if case is not None:
            cases.append(case)
            index.append(i)
    for k, res in run_batch("XpmConfig_Enc.tla", "XpmConfig_Enc.cfg", cases):
        rep.cov["states"] += res.distinct
        rep.cov["transitions"] += max(res.generated, res.distinct)
        if res.error:
            rep.machinery_failure("TLC failed on a graph batch: " + str(res.error)[:300])
        for m in res.printed("MISMATCH"):
            i = index[k + m[1] - 1]
            fields = {MISMATCH_FIELDS[j] for j in range(7) if m[2 + j]}
            want = {"C12": "definitions", "C13": "instances"}[prop]
            if want in fields:
                rep.violation(f"{prop}/conformance/{want}", f"graph #{i}: {want} disagree with XpmConfig ({m[2:]})", {"graph": gs[i], "seed": sd * 13 + i, "io": True})
    rep.cov["traces_validated_against_impl"] += len(cases)
    rep.cov["distinct_nontrivial"] += sum(1 for c in cases if len(c["g"]) > 1 and any(len(v) > 1 for v in c["defs"].values()))
    if cases:
        rep.sample({"graph": cases[0]["g"], "definition_order": cases[0]["defs"], "instances": cases[0]["inst"]})


def reload_identifiers(rep, prop, n, sd):
    """Written, loaded and identified again: a loaded configuration is identified like the original (C03: what was
    produced by different tasks stays different after a reload)"""
    gs = graphs(n, sd + 31) + producer_graphs(max(10, n // 3), sd + 32)
    with pool() as ex:
        obs = list(ex.map(_w_io, [(g, sd * 17 + i) for i, g in enumerate(gs)], chunksize=10))
    for i, (case, problems) in enumerate(obs):
        rep.cov["evaluations"] += 1
        for pb in problems:
            if "identifier of reloaded node" in pb or "identifier of a new holder" in pb:
                rep.violation(f"{prop}/reload/{pb.split(':')[0]}/identifier differs", f"graph #{i}: {pb}", {"graph": gs[i], "seed": sd * 17 + i, "io": True})
    rep.cov["reloaded_graphs"] = len(gs)


def echo_runs(rep, n, sd):
    from . import cfgecho

    gs = [g for g in graphs(n * 5, sd + 5) if all(x["cls"] in ("K", "K2", "K2Old", "V", "G") and not x["pre"] and x["task"] == "0"
                                                   for x in g.values()) and _acyclic(g)][:n]
    out, err = cfgecho.run([(g, "1") for g in gs])
    if err:
        rep.machinery_failure("echo runs: " + err)
        return
    for i, (g, problems) in enumerate(zip(gs, out)):
        rep.cov["evaluations"] += 1
        for p in problems:
            rep.violation(f"C12/echo/{p.split(':')[-1][:50]}", f"echo graph #{i}: {p}", {"graph": g})
    rep.cov["echo_task_runs"] = len(gs)


FIELDS_OF = {
    "C01": {"stream", "pretasks"}, "C02": {"stream"}, "C03": {"stream", "pretasks"}, "C20": {"stream"},
    "C14": {"sealed"}, "C17": {"generated"},
}
PYDIFF_OF = {
    "C01": ("full identifier is not", "changed after sealing", "exception"),
    "C02": ("changed after sealing",),
    "C03": ("full identifier is not",),
    "C14": ("changed after sealing", "raised"),
    "C17": ("raised",),
    "C20": ("exception",),
}


def conformance_random(rep, prop, n, sd):
    gs = graphs(n, sd) + (producer_graphs(max(10, n // 8), sd + 5) if prop in ("C01", "C03") else [])
    with pool() as ex:
        obs = list(ex.map(_w_observe, [(g, sd * 7919 + i, True) for i, g in enumerate(gs)], chunksize=20))
    cases, index = [], []
    for i, (case, diffs) in enumerate(obs):
        rep.cov["evaluations"] += 1
        for d in diffs:
            if any(k in d for k in PYDIFF_OF[prop]):
                rep.violation(f"{prop}/real/{d.split(':')[-1].strip()[:60]}", f"random graph #{i}: {d}", {"graph": gs[i], "seed": sd * 7919 + i})
        if case is not None:
            cases.append(case)
            index.append(i)
    nontriv = 0
    for k, res in run_batch("XpmConfig_Enc.tla", "XpmConfig_Enc.cfg", cases):
        rep.cov["states"] += res.distinct
        rep.cov["transitions"] += max(res.generated, res.distinct)
        if res.error:
            rep.machinery_failure("TLC failed on a graph batch: " + str(res.error)[:300])
        for m in res.printed("MISMATCH"):
            t = m[1]
            i = index[k + t - 1]
            fields = {MISMATCH_FIELDS[j] for j in range(7) if m[2 + j]}
            if fields & FIELDS_OF[prop]:
                rep.violation(f"{prop}/conformance/{'+'.join(sorted(fields & FIELDS_OF[prop]))}",
                              f"random graph #{i}: the real objects disagree with XpmConfig on {sorted(fields)} (nodes {m[2:]})",
                              {"graph": gs[i], "seed": sd * 7919 + i})
    for c in cases:
        if len(c["g"]) > 1 and any(11 in s or 256 in s for s in c["streams"].values()):
            nontriv += 1
    rep.cov["traces_validated_against_impl"] += len(cases)
    rep.cov["distinct_nontrivial"] += nontriv
    if cases:
        rep.sample({"graph": cases[0]["g"], "stream_of_node_1": cases[0]["streams"].get("1", [])[:80], "generated": cases[0]["gen"]})


def pairs(rep, prop, n, sd):
    rng = random.Random(sd)
    gs = graphs(n, sd + 1)
    g2 = [edit(g, rng) for g in gs]
    with pool() as ex:
        oa = list(ex.map(_w_observe, [(g, 1, False) for g in gs], chunksize=20))
        ob = list(ex.map(_w_observe, [(g, 2, False) for g in g2], chunksize=20))
    cases, index = [], []
    for i, ((ca, da), (cb, db)) in enumerate(zip(oa, ob)):
        rep.cov["evaluations"] += 1
        if ca is None or cb is None:
            continue  # the edited graph is not constructible (type error): not a pair
        # identifier equality is decided on the real SHA-256 values
        for c, g in ((ca, gs[i]), (cb, g2[i])):
            c["ids"] = {n: _digest_of_stream(s) for n, s in c["streams"].items()}
        cases.append({"a": {k: ca[k] for k in ("g", "streams", "ids")}, "b": {k: cb[k] for k in ("g", "streams", "ids")}})
        index.append(i)
    same = total = 0
    for k, res in run_batch("XpmConfig_Pairs.tla", "XpmConfig_Pairs.cfg", cases):
        rep.cov["states"] += res.distinct
        rep.cov["transitions"] += max(res.generated, res.distinct)
        if res.error:
            rep.machinery_failure("TLC failed on a pair batch: " + str(res.error)[:300])
        for p in res.printed("PAIR"):
            same += p[2]
            total += p[3]
        for m in res.printed("MISMATCH"):
            i = index[k + m[1] - 1]
            badenc, neutral, collide = m[2], m[3], m[4]
            payload = {"a": gs[i], "b": g2[i]}
            if badenc and prop in ("C02", "C03", "C20"):
                rep.violation(f"{prop}/pairs/stream", f"pair #{i}: identifier stream differs from the specification (nodes {badenc})", payload)
            if neutral and prop in ("C02", "C20"):
                rep.violation(f"{prop}/pairs/neutral-edit-changes-identifier", f"pair #{i}: same signature, different identifiers (nodes {neutral})", payload)
            if collide and prop == "C03":
                rep.violation("C03/pairs/collision", f"pair #{i}: different signatures share an identifier (nodes {collide})", payload)
    rep.cov["traces_validated_against_impl"] += len(cases)
    rep.cov["pairs"] = {"node_pairs": total, "equal_signature": same, "different_signature": total - same}
    rep.cov["distinct_nontrivial"] += min(same, total - same)
    if cases:
        rep.sample({"pair": {"a": cases[0]["a"]["g"], "b": cases[0]["b"]["g"]}})


def _digest_of_stream(stream):
    """SHA-256 over a bracketed stream (256 <child> 257 = the child's 32-byte digest)"""

    def go(pos):
        h = hashlib.sha256()
        while pos < len(stream):
            x = stream[pos]
            if x == 256:
                d, pos = go(pos + 1)
                h.update(d)
            elif x == 257:
                return h.digest(), pos + 1
            else:
                h.update(bytes([x]))
                pos += 1
        return h.digest(), pos

    return go(0)[0].hex()


def behaviours(rep, prop, tier, sd):
    """B1: behaviours of MC_Config (seal / identifier request / assignment / submit histories) replayed on real objects"""
    from . import cfgreplay

    num = 2500 if tier == "quick" else 40000
    res = tlc.tlc("MC_Config.tla", "MC_Config_sim.cfg", workers=1, timeout=1800,
                  extra=["-simulate", f"num={num}", "-depth", "7", "-seed", str(sd + 11)])
    behs = cfgreplay.parse_behaviours(res.out)
    if tier == "thorough":
        res2 = tlc.tlc("MC_Config.tla", "MC_Config_export.cfg", workers=1, timeout=1800)
        allb = cfgreplay.parse_behaviours(res2.out)
        behs += allb
        rep.cov["exhaustive_depth3_behaviours"] = len(allb)
    if not behs:
        rep.machinery_failure("TLC exported no behaviour: " + str(res.error)[:300])
        return
    with pool() as ex:
        out = list(ex.map(_w_replay, [(b, sd + i) for i, b in enumerate(behs)], chunksize=50))
    kinds = set()
    for b, d in zip(behs, out):
        rep.cov["evaluations"] += 1
        acts = tuple(a[0] for a in b["hist"])
        if d is None:
            rep.cov["traces_validated_against_impl"] += 1
            if "id" in acts and ("seal" in acts or "submit" in acts):
                kinds.add((json.dumps(b["g"], sort_keys=True)[:0], acts, tuple(a[1] for a in b["hist"])))
        else:
            what = d.get("what", "?")
            mine = (prop == "C03" and "identifier" in what and any(a[0] == "submit" for a in b["hist"])) or (prop == "C01" and ("identifier" in what or "exception" in what)) or (
                prop == "C14" and ("assignment" in what or "sealed" in what or "exception" in what or "identifier" in what))
            if mine:
                rep.violation(f"{prop}/replay/{what[:70]}", f"history {[a[:2] for a in b['hist']]}: {what} (step {d.get('step')})",
                              {"behaviour": b})
    rep.cov["distinct_nontrivial"] += len(kinds)
    rep.sample({"behaviour": {"hist": [a[:2] for a in behs[0]["hist"]]}})


def hashseeds(rep, n, sd, prop="C01"):
    """C01: same graphs built in other processes under other PYTHONHASHSEED, shuffled keyword / dict orders"""
    gs = graphs(n, sd + 5)
    ref = None
    for hs in ("0", "1", "12345"):
        code = ("import json,sys,logging,warnings;warnings.filterwarnings('ignore');logging.disable(logging.CRITICAL);"
                "from xv.checks_config import _w_ids;gs=json.load(open(sys.argv[1]));"
                "print('IDS'+json.dumps([_w_ids((g,int(sys.argv[2])*1000+i)) for i,g in enumerate(gs)]))")
        f = tempfile.mktemp(suffix=".json", dir=str(tlc.workdir("hs")))
        Path(f).write_text(json.dumps(gs))
        p = subprocess.run(["/venv/bin/python", "-W", "ignore", "-c", code, f, hs],
                           env=dict(os.environ, PYTHONPATH=REPO_SRC + ":/verif", PYTHONHASHSEED=hs, XPM_VERIF="1"),
                           capture_output=True, text=True, cwd=str(VERIF))
        import shutil

        shutil.rmtree(Path(f).parent, ignore_errors=True)
        line = next((l for l in p.stdout.splitlines() if l.startswith("IDS")), None)
        if line is None:
            rep.machinery_failure("identifier subprocess failed: " + p.stderr[-300:])
            return
        ids = json.loads(line[3:])
        if ref is None:
            ref = ids
        else:
            for i, (a, b) in enumerate(zip(ref, ids)):
                rep.cov["evaluations"] += 1
                if a != b:
                    rep.violation(f"{prop}/hashseed", f"graph #{i}: identifiers differ between processes (PYTHONHASHSEED=0 vs {hs}, "
                                  "shuffled construction order)", {"graph": gs[i], "hashseed": hs})
    rep.cov["hashseed_graphs"] = n


def golden(rep):
    """C01: identifiers pinned at the pinned commit (unsealed, cache-free)"""
    if not GOLDEN.exists():
        rep.machinery_failure("golden/identifiers.json is missing")
        return
    data = json.loads(GOLDEN.read_text())
    with pool() as ex:
        out = list(ex.map(_w_ids, [(g, 3) for g, _ in data], chunksize=20))
    for i, ((g, want), got) in enumerate(zip(data, out)):
        rep.cov["evaluations"] += 1
        if got != want:
            rep.violation("C01/golden", f"corpus graph #{i}: identifier differs from the one pinned at the pinned commit", {"graph": g})
    rep.cov["golden_graphs"] = len(data)


# ---------------------------------------------------------------- the checks
def run(prop, tier, replay=None):
    rep = Report(prop, tier, "model_checking")
    rep.assumptions += ["SHA-256 is injective (a child's identifier stands for the child's stream)",
                        "bounded families: <= 4 nodes, the value vocabulary of tools/gen_schema.py, the classes of xvschema/cfg.py"]
    sd = seed()
    if replay:
        payload = json.loads(open(replay).read())["payload"] or {}
        _w_init()
        if "behaviour" in payload:
            d = _w_replay((payload["behaviour"], 0))
            print("replay:", d)
            if d:
                rep.violation(f"{prop}/replay", str(d), payload)
        elif "case" in payload and "fault_result" in payload:
            from . import ws_deprecated
            ws_deprecated.run_crash(rep, tier, sd, only=[payload["case"]])
        elif payload.get("io"):
            case, diffs = _w_io((payload["graph"], payload.get("seed", 0)))
            print("problems:", diffs)
            for d in diffs:
                if d.startswith(IO_PREFIX.get(prop, ())) or (prop in ("C01", "C02", "C03") and "identifier of" in d):
                    rep.violation(f"{prop}/replay", d, payload)
        elif "graph" in payload:
            case, diffs = _w_observe((payload["graph"], payload.get("seed", 0), True))
            print("python-side differences:", diffs)
            for k, res in run_batch("XpmConfig_Enc.tla", "XpmConfig_Enc.cfg", [case] if case else []):
                for m in res.printed("MISMATCH"):
                    rep.violation(f"{prop}/replay", f"disagreement with the specification: {m}", payload)
            for d in diffs:
                rep.violation(f"{prop}/replay", d, payload)
        return rep.finish()

    for mod in ("XpmConfig_Enc.tla", "XpmConfig_Pairs.tla", "MC_Config.tla", "MC_ConfigSig.tla"):
        ok, out = tlc.sany(mod)
        if not ok:
            rep.machinery_failure(f"SANY rejects {mod}: " + out[-300:])
            return rep.finish()
    nq = 400 if tier == "quick" else 6000
    if prop in ("C01", "C02", "C20"):
        schema_crosscheck(rep, prop)
    if prop == "C01":
        model_check(rep, prop, "MC_Config.tla", "MC_Config_TRUE.cfg", {"IdIsCanonical"}, "all seal / request / assignment / submit histories (view without history)")
        model_check(rep, prop, "MC_ConfigF18.tla", "MC_ConfigF18_TRUE.cfg", None, "a configuration-valued default: identifier independent of sealing")
        behaviours(rep, prop, tier, sd)
        conformance_random(rep, prop, nq, sd)
        hashseeds(rep, 120 if tier == "quick" else 1500, sd)
        golden(rep)
        resubmit_paths(rep, 40 if tier == "quick" else 400, sd, "C01")      # the job directory is named by the identifier
        reload_identifiers(rep, prop, nq // 4, sd)
    elif prop == "C02":
        model_check(rep, prop, "MC_ConfigSig.tla", "MC_ConfigSig_small.cfg" if tier == "quick" else "MC_ConfigSig.cfg", None,
                    "Enc(x) = Enc(y) <=> Sig(x) = Sig(y) over the value and structure families")
        pairs(rep, prop, nq * 2, sd)
        conformance_random(rep, prop, nq // 2, sd)
        evolution(rep)
        reload_identifiers(rep, prop, nq // 4, sd)
    elif prop == "C03":
        model_check(rep, prop, "MC_ConfigSig.tla", "MC_ConfigSig_small.cfg" if tier == "quick" else "MC_ConfigSig.cfg", None,
                    "Enc(x) = Enc(y) <=> Sig(x) = Sig(y) over the value and structure families")
        pairs(rep, prop, nq * 3, sd)
        conformance_random(rep, prop, nq // 2, sd)
        behaviours(rep, prop, tier, sd)  # the producing task must enter the identifier of a marked output
        reload_identifiers(rep, prop, nq // 4, sd)
    elif prop == "C14":
        model_check(rep, prop, "MC_Config.tla", "MC_Config_TRUE.cfg", {"SealClosed", "SealedFrozen", "IdIsCanonical"},
                    "sealing is transitive, sealed configurations never change")
        behaviours(rep, prop, tier, sd)
        conformance_random(rep, prop, nq, sd)
        frozen_scenarios(rep, tier, sd)
    elif prop == "C17":
        model_check(rep, prop, "MC_ConfigGen.tla", "MC_ConfigGen.cfg", None, "generated paths inside / distinct over the structure family")
        conformance_random(rep, prop, nq * 2, sd)
        resubmit_paths(rep, 60 if tier == "quick" else 600, sd)
    elif prop == "C12":
        model_check(rep, prop, "MC_ConfigGen.tla", "MC_ConfigDefs.cfg", None, "definition list: every reachable object once, children first")
        io_conformance(rep, prop, nq, sd)
        echo_runs(rep, 20 if tier == "quick" else 200, sd)
        from . import checks_restart

        checks_restart.run_rerun(rep, "C12")      # the second attempt of a job observes the second configuration
    elif prop == "C13":
        model_check(rep, prop, "MC_ConfigGen.tla", "MC_ConfigDefs.cfg", None, "instantiated set = reachable without task links")
        io_conformance(rep, prop, nq, sd)
    elif prop == "C20":
        model_check(rep, prop, "MC_ConfigSig.tla", "MC_ConfigSig_small.cfg" if tier == "quick" else "MC_ConfigSig.cfg", {"DeprecatedSame"},
                    "a deprecated class hashes like its replacement at any position")
        pairs(rep, "C20", nq, sd)  # class swaps K2 <-> K2Old <-> K2Older are among the edits: equal signature => equal identifier
        conformance_random(rep, prop, nq, sd)
        from . import checks_workspace

        checks_workspace.fix_deprecated_part(rep, tier, sd)
    rep.cov["rule"] += (
        " | real configuration objects built from abstract graphs (seeded random + the families enumerated by TLC); every "
        "tapped identifier stream / sealed set / generated path is compared with XpmConfig by TLC; non-trivial = graphs with "
        "sharing or cycles, node pairs with equal resp. different signature, histories mixing sealing and identifier requests"
    )
    return rep.finish()


# ---------------------------------------------------------------- C02: schema evolution
def evolution(rep):
    """Adding defaulted / Meta / generated parameters to a class leaves identifiers unchanged: the same graphs
    are built over a second generation of the classes (same __xpmid__, extra parameters) in a subprocess"""
    gs = [g for g in graphs(150, seed() + 77) if all(x["cls"] in ("K", "K2", "V", "G") for x in g.values())]
    code = ("import json,sys,logging,warnings;warnings.filterwarnings('ignore');logging.disable(logging.CRITICAL);"
            "import xv.cfgreal as R\n"
            "if sys.argv[2]=='2':\n"
            "    import xvschema.cfg2 as S2; R.CLS.update({'K':S2.K,'K2':S2.K2,'V':S2.V,'G':S2.G})\n"
            "gs=json.load(open(sys.argv[1])); out=[]\n"
            "for g in gs:\n"
            "    o=R.build(g); out.append({n:x.__xpm__.full_identifier.all.hex() for n,x in o.items()})\n"
            "print('IDS'+json.dumps(out))")
    res = []
    f = tempfile.mktemp(suffix=".json", dir=str(tlc.workdir("evo")))
    Path(f).write_text(json.dumps(gs))
    for gen in ("1", "2"):
        p = subprocess.run(["/venv/bin/python", "-W", "ignore", "-c", code, f, gen],
                           env=dict(os.environ, PYTHONPATH=REPO_SRC + ":/verif", XPM_VERIF="1"), capture_output=True, text=True, cwd=str(VERIF))
        line = next((l for l in p.stdout.splitlines() if l.startswith("IDS")), None)
        if line is None:
            rep.machinery_failure("schema evolution subprocess failed: " + p.stderr[-400:])
            return
        res.append(json.loads(line[3:]))
    import shutil

    shutil.rmtree(Path(f).parent, ignore_errors=True)
    for i, (a, b) in enumerate(zip(*res)):
        rep.cov["evaluations"] += 1
        if a != b:
            rep.violation("C02/evolution", f"graph #{i}: identifiers change when defaulted / Meta / generated parameters are added to the classes",
                          {"graph": gs[i]})
    rep.cov["evolution_graphs"] = len(gs)


# ---------------------------------------------------------------- C14: scripted scenarios beyond the TLC family
def _w_frozen(sd):
    """Submits producer / consumer tasks in a dry-run experiment and probes every mutation entry point on every
    configuration reachable from the submitted task; returns (case for TLC, problems)"""
    from . import cfgreal as R
    from . import cfgreplay
    from experimaestro import setmeta
    from experimaestro.core.objects import SealedError
    from xvschema import cfg as S

    cfgreplay.dry_experiment()
    rng = random.Random(sd)
    problems = []
    inner = S.K(a=rng.choice([1, 2, 3]))
    thelist, thedict = [inner, S.K(a=4)], {"k": S.K2(a=1)}       # the caller keeps these containers
    holder = S.K(a=7, c=inner, l=thelist, d=thedict)
    kind = rng.choice(["T", "T1", "T0"])
    pre = S.LW(k=rng.choice([1, 2]), c=S.K(a=9))
    if kind == "T":
        prod = S.T(x=holder, n=rng.choice([0, 1]))
    elif kind == "T1":
        prod = S.T1(x=holder)
    else:
        prod = S.T0(x=holder)
    if rng.random() < 0.5:
        prod.add_pretasks(pre)
    if rng.random() < 0.4:
        # a first attempt to turn the holder into objects fails in the middle of the graph (a path generator raises):
        # nothing of that attempt may count as sealed when the task is submitted afterwards
        gf = S.GF(z=S.K(a=31))
        holder.g = gf
        thelist.append(S.K(a=32))
        holder.l = thelist
        S.FAIL_GEN.append(1)
        try:
            holder.instance()
            problems.append("the failing generator did not fail")
        except Exception:
            pass
        S.FAIL_GEN.clear()
    out = prod.submit()
    cons = S.T0(x=S.G(z=out), n=5)
    before_ids = None
    both = rng.random() < 0.5
    cpre, cinit = S.LW(k=21, c=S.K(a=21)), S.LW(k=22, c=S.K2(a=22))
    if both or rng.random() < 0.3:
        cons.add_pretasks(cpre)
    inits = [cinit] if both or rng.random() < 0.5 else []
    consout = cons.submit(init_tasks=inits)
    everything = {"prod": prod, "holder": holder, "inner": inner, "out": out, "cons": cons, "wrap": cons.x}
    for i, x in enumerate(holder.l):
        everything[f"holder.l{i}"] = x
    if holder.g is not None:
        everything["holder.g"] = holder.g
        everything["holder.g.z"] = holder.g.z
        if holder.g.__xpm__.values.get("p") is None:
            problems.append("a generated path of a configuration reachable from the submitted task was never generated")
    for i, t in enumerate(cons.__xpm__.pre_tasks):
        everything[f"cons.pre{i}"] = t
        everything[f"cons.pre{i}.c"] = t.c
    for i, t in enumerate(inits):
        everything[f"cons.init{i}"] = t
        everything[f"cons.init{i}.c"] = t.c
    for i, t in enumerate(prod.__xpm__.pre_tasks):
        everything[f"prod.pre{i}"] = t
    ids = {k: v.__xpm__.full_identifier.all for k, v in everything.items()}
    paths = (str(prod.__xpm__.job.relpath), str(cons.__xpm__.job.relpath))
    for name, o in everything.items():
        if not o.__xpm__._sealed:
            problems.append(f"{name} ({kind}) is reachable from a submitted task but not sealed")
        for what, fn in (
            ("assign a parameter", lambda o=o: setattr(o, *next((a, (None if a == "z" else 1)) for a in ("a", "n", "k", "z") if a in o.__xpmtype__.arguments))),
            ("change the meta flag", lambda o=o: setmeta(o, True)),
            ("set the meta flag to False", lambda o=o: setmeta(o, False)),
            ("reset an optional parameter to None", lambda o=o: setattr(o, next(a for a in ("c", "x", "z", "o") if a in o.__xpmtype__.arguments and not o.__xpmtype__.arguments[a].required), None)
             if any(a in o.__xpmtype__.arguments and not o.__xpmtype__.arguments[a].required for a in ("c", "x", "z", "o")) else (_ for _ in ()).throw(SealedError("no optional parameter"))),
            ("add a pre-task", lambda o=o: o.add_pretasks(S.LW(k=99))),
            ("copy the pre-tasks of another configuration", lambda o=o: o.add_pretasks_from(S.K(a=1).add_pretasks(S.LW(k=98)))),
        ):
            try:
                fn()
                problems.append(f"{what} on {name} ({kind}) after submission was accepted")
            except (AttributeError, AssertionError, SealedError):
                pass
    # the containers handed to the constructor still belong to the caller: changing them afterwards changes nothing
    npre = {k: len(v.__xpm__.pre_tasks) for k, v in everything.items()}
    nlist = len(holder.l)
    thelist.append(S.K(a=99))
    thelist[0] = S.K(a=98)
    thedict["z"] = S.K2(a=97)
    if len(holder.l) != nlist or holder.l[0] is not inner or sorted(holder.d) != ["k"]:
        problems.append("a list / dict given to a parameter is shared with the caller: changing it after submission changes the submitted task")
    for k, v in everything.items():
        if len(v.__xpm__.pre_tasks) != npre[k]:
            problems.append(f"{k} gained a pre-task after submission")
        if v.__xpm__.full_identifier.all != ids[k]:
            problems.append(f"identifier of {k} changed after the rejected attempts")
    if (str(prod.__xpm__.job.relpath), str(cons.__xpm__.job.relpath)) != paths:
        problems.append("job directory changed after submission")
    return kind, problems


def frozen_scenarios(rep, tier, sd):
    n = 40 if tier == "quick" else 400
    with pool() as ex:
        out = list(ex.map(_w_frozen_safe, [sd * 31 + i for i in range(n)], chunksize=5))
    for i, (kind, problems) in enumerate(out):
        rep.cov["evaluations"] += 1
        for p in problems:
            rep.violation(f"C14/frozen/{p[:70]}", f"scenario #{i}: {p}", {"scenario_seed": sd * 31 + i})
    rep.cov["frozen_scenarios"] = n


def _w_frozen_safe(sd):
    try:
        return _w_frozen(sd)
    except Exception as e:
        return "?", [f"exception in the scenario: {e!r}"[:200]]


# ---------------------------------------------------------------- C17: the same configuration submitted again
def _w_resubmit(args):
    graph, sd = args
    from . import cfgreal as R
    from . import cfgreplay
    from xvschema import cfg as S

    cfgreplay.dry_experiment()
    res = []
    how = random.Random(sd * 31 + len(json.dumps(graph))).choice(["plain", "init", "pre", "both"])
    for rnd in range(2):
        objs = R.build(graph, None)
        t = S.T0(x=objs["1"], n=4)
        if how in ("pre", "both"):
            t.add_pretasks(S.LW(k=11, c=S.K2(a=3)))
        init = [S.LW(k=12, c=S.K(a=2)), S.LW(k=13)] if how in ("init", "both") else []
        if init:
            t.submit(init_tasks=init)
        else:
            t.submit()
        jobdir = t.__xpm__.job.path
        gen = {}
        # the job directory is jobs/<type identifier>/<full identifier>, the full identifier being
        # SHA-256(raw, sorted pre-task identifiers, INIT_TASKS + init-task identifiers in order)
        from experimaestro.core.objects import HashComputer

        h = hashlib.sha256(t.__xpm__.raw_identifier.all)
        for x in sorted(p.__xpm__.raw_identifier.all for p in t.__xpm__.collect_pre_tasks()):
            h.update(x)
        if init:
            h.update(HashComputer.INIT_TASKS)
            for i in init:
                h.update(i.__xpm__.raw_identifier.all)
        if jobdir.name != h.hexdigest() or jobdir.parent.name != str(t.__xpmtype__.identifier):
            gen["jobdir"] = f"NOTCANONICAL:{jobdir.parent.name}/{jobdir.name} ({how})"
        extra = {f"pre{i}": o for i, o in enumerate(t.__xpm__.pre_tasks)}
        extra.update({f"init{i}": o for i, o in enumerate(init)})
        for name, lw in extra.items():
            c = lw.c
            if c is not None and c.__xpm__._sealed:
                a = {"K": "p", "K2": "q"}[type(c).__mro__[2].__name__ if hasattr(type(c), "__mro__") else "K"] if False else ("p" if isinstance(c, S.K) else "q")
                v = Path(c.__xpm__.values[a])
                try:
                    gen[name] = str(v.resolve().relative_to(jobdir.resolve()))
                except ValueError:
                    gen[name] = "OUTSIDE:" + str(v)
        for n, o in objs.items():
            a = {"K": "p", "K2": "q", "K2Old": "q", "K2Older": "q", "G": "p", "GF": "p"}.get(graph[n]["cls"])
            if a and o.__xpm__._sealed:
                v = Path(o.__xpm__.values[a])
                try:
                    gen[n] = str(v.resolve().relative_to(jobdir.resolve()))
                except ValueError:
                    gen[n] = "OUTSIDE:" + str(v)
        res.append(gen)
    return res


def resubmit_paths(rep, n, sd, prop="C17"):
    gs = [g for g in graphs(n * 3, sd + 9) if all(x["cls"] in ("K", "K2", "K2Old", "K2Older", "V", "G", "GF", "PX", "QX", "N", "DH") and not x["pre"] for x in g.values())
          and _acyclic(g)][:n]
    with pool() as ex:
        out = list(ex.map(_w_resubmit_safe, [(g, sd) for g in gs], chunksize=5))
    for i, (g, r) in enumerate(zip(gs, out)):
        rep.cov["evaluations"] += 1
        if isinstance(r, str):
            rep.violation("C17/submit/exception", f"graph #{i}: {r}", {"graph": g})
            continue
        a, b = r
        for x in (a, b):
            if "jobdir" in x:
                rep.violation(f"{prop}/jobdir-not-canonical", f"graph #{i}: the job directory is not jobs/<type identifier>/<full identifier>: {x['jobdir']}", {"graph": g})
                break
        if prop != "C17":
            # a path generated during sealing is built from the identifier requested at that moment: outside the final
            # job directory = the identifier was not yet the one the task ends up with
            if any(v.startswith("OUTSIDE") for v in a.values()):
                rep.violation(f"{prop}/identifier-during-sealing", f"graph #{i}: a path generated while sealing is not under the final "
                              f"jobs/<type>/<identifier>: the identifier changed during submission: {a}", {"graph": g})
            continue
        if a != b:
            rep.violation("C17/reproducible", f"graph #{i}: the same configuration submitted again gets other generated paths", {"graph": g})
        if any(v.startswith("OUTSIDE") for v in a.values()):
            rep.violation("C17/inside", f"graph #{i}: a generated path is outside the job directory: {a}", {"graph": g})
        if len(set(a.values())) != len(a):
            rep.violation("C17/distinct", f"graph #{i}: two generated parameters share a path: {a}", {"graph": g})
    rep.cov["resubmitted_graphs"] = len(gs)


def _w_resubmit_safe(args):
    try:
        return _w_resubmit(args)
    except Exception as e:
        return f"exception: {e!r}"[:200]


def _acyclic(g):
    from . import cfgreal as R

    def succ(n):
        out = []

        def walk(v):
            if v[0] == "cfg":
                out.append(v[1])
            elif v[0] == "list":
                for x in v[1]:
                    walk(x)
            elif v[0] == "dict":
                for _, x in v[1]:
                    walk(x)

        for v in g[n]["vals"].values():
            walk(v)
        return out

    state = {}

    def dfs(n):
        if state.get(n) == 1:
            return False
        if state.get(n) == 2:
            return True
        state[n] = 1
        ok = all(dfs(m) for m in succ(n))
        state[n] = 2
        return ok

    return all(dfs(n) for n in g)
