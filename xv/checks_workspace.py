"""Workspace-level checks (C16, C19 commands, C20 repair) -- see XpmWorkspace.tla"""


def fix_deprecated_part(rep, tier, sd):
    """C20, repair half (fix_deprecated on real workspaces) -- filled in by the workspace engine"""
    try:
        from . import ws_deprecated
    except ImportError:
        rep.cov["fix_deprecated"] = "not built yet"
        return
    ws_deprecated.run(rep, tier, sd)
    ws_deprecated.run_crash(rep, tier, sd)


def clean_part(rep, tier, sd):
    """C19, command half (jobs clean / orphans on real workspaces) -- filled in by the workspace engine"""
    try:
        from . import ws_commands
    except ImportError:
        rep.cov["commands"] = "not built yet"
        return
    ws_commands.run_c19(rep, tier, sd)
