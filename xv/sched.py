"""Scheduler conformance: E1 executions of the real scheduler validated against XpmScheduler.tla"""
import json
import os
import sys
import time
from concurrent.futures import ProcessPoolExecutor
from pathlib import Path

from . import tlc

SCRATCH = "/dev/shm" if os.path.isdir("/dev/shm") else None


# ---------------------------------------------------------------- plans
def P(jobs, program, tokens=None, **kw):
    d = {"jobs": jobs, "tokens": tokens or {}, "program": program}
    d.update(kw)
    return d


def submit_all(names, tail=(("wait",),)):
    return [["submit", n] for n in names] + [list(t) for t in tail]


def fixed_set():
    """The specification describes the repaired scheduler (F2, F3, F4 fixed in /repo by `fix:`
    commits).  The pinned, defective behaviour is kept in the specification as named deviations
    (wl.fix without the name) only to show with TLC that the model finds those defects."""
    return ["F2", "F3", "F4"]


def wl_of(plan, fix):
    names = sorted(plan["jobs"])
    toks = sorted(plan.get("tokens", {}))
    nsub = {n: 0 for n in names}
    for op in plan["program"]:
        if op[0] == "submit":
            nsub[op[1]] += 1
    return {
        "names": names,
        "inst": {n: [f"{n}#{k}" for k in range(max(1, nsub[n]))] for n in names},
        "deps": {n: sorted(plan["jobs"][n].get("deps", {})) for n in names},
        "tokens": toks,
        "cap": {t: plan["tokens"][t] for t in toks},
        "req": {n: {t: plan["jobs"][n].get("tok", {}).get(t, 0) for t in toks} for n in names},
        "codes": {n: plan["jobs"][n].get("codes", [0]) for n in names},
        "program": [{"op": op[0], "n": (op[1] if len(op) > 1 else "-")} for op in plan["program"]],
        "fix": fix,
    }


# ---------------------------------------------------------------- execution
def _run_one(args):
    plan, mode, seed = args
    from . import e1

    if mode == "random":
        chooser = e1.RandomChooser(seed)
    elif mode == "replay":
        chooser = e1.ReplayChooser(seed)
    else:
        raise ValueError(mode)
    try:
        r = e1.run_plan(plan, chooser)
    except e1.MachineryError as ex:
        return {"machinery": repr(ex), "plan": plan, "seed": seed}
    return r


def _dfs(args):
    """Systematic enumeration of the schedules of one plan (state-deduplicated, budgeted)"""
    plan, budget = args
    from . import e1

    stack = [[]]
    seen = set()
    out = []
    complete = True
    while stack:
        if len(out) >= budget:
            complete = False
            break
        prefix = stack.pop()
        ch = e1.ReplayChooser(prefix)
        try:
            r = e1.run_plan(plan, ch)
        except e1.MachineryError as ex:
            out.append({"machinery": repr(ex), "plan": plan, "seed": prefix})
            continue
        out.append(r)
        for pos in range(len(prefix), len(ch.widths)):
            if ch.widths[pos] > 1:
                k = ch.keys[pos]
                if k in seen:
                    continue
                seen.add(k)
                for alt in range(ch.widths[pos] - 1, 0, -1):
                    stack.append(r["choices"][:pos] + [alt])
    return out, complete


def execute_dfs(plans, budget, workers=16):
    with ProcessPoolExecutor(max_workers=workers, initializer=_init_worker) as ex:
        res = list(ex.map(_dfs, [(p, budget) for p in plans]))
    return res


def _init_worker():
    import logging
    import warnings

    warnings.filterwarnings("ignore")
    logging.disable(logging.CRITICAL)
    if SCRATCH:
        os.environ["XV_SCRATCH"] = SCRATCH
    sys.stderr = open(os.devnull, "w")


def execute(jobs, workers=16):
    """jobs: list of (plan, mode, seed) -> list of engine results (same order)"""
    with ProcessPoolExecutor(max_workers=workers, initializer=_init_worker) as ex:
        return list(ex.map(_run_one, jobs, chunksize=max(1, len(jobs) // (workers * 8))))


# ---------------------------------------------------------------- validation
def validate(results, fix, shard=400, workers=16):
    """Validates engine results with TLC; returns list of verdict dicts (same order)"""
    wd = tlc.workdir("sched")
    verdicts = [None] * len(results)
    shards = []
    idx = [i for i, r in enumerate(results) if "events" in r]
    for k in range(0, len(idx), shard):
        part = idx[k : k + shard]
        f = wd / f"batch{k}.json"
        with f.open("w") as fp:
            json.dump([{"wl": wl_of(results[i]["plan"], fix), "ev": results[i]["events"]} for i in part], fp)
        shards.append((part, f))
    stats = {"generated": 0, "distinct": 0, "tlc_wall": 0.0, "tlc_errors": []}

    def run_shard(item):
        part, f = item
        return part, tlc.tlc("XpmScheduler_Trace.tla", "XpmScheduler_Trace.cfg", workers=1,
                             env={"TRACE_FILE": str(f), "XV_DEBUG": os.environ.get("XV_DEBUG", "0")}, timeout=3600)

    from concurrent.futures import ThreadPoolExecutor

    with ThreadPoolExecutor(max_workers=workers) as ex:
        for part, res in ex.map(run_shard, shards):
            stats["generated"] += res.generated
            stats["distinct"] += res.distinct
            stats["tlc_wall"] += res.wall
            rejected = {x[1]: x for x in res.printed("REJECTED")}
            if os.environ.get("XV_DEBUG") == "1":
                for line in res.out.splitlines():
                    if line.startswith('<<"MODEL"') or line.startswith('<<"MISMATCH"'):
                        print(line)
            mism = {}
            for x in res.printed("MISMATCH"):
                mism.setdefault(x[1], []).append(x)
            invs = {}
            for x in res.printed("INV"):
                invs.setdefault(x[1], []).append(x)
            if res.error or (res.violation and res.violation[0] not in ("action property",)):
                if not rejected:
                    stats["tlc_errors"].append((res.error or str(res.violation)) + "\n" + res.out[-3000:])
            prop = res.violation[1] if res.violation and res.violation[0] == "action property" else None
            for pos, i in enumerate(part):
                t = pos + 1
                v = {"accepted": t not in rejected, "inv": [], "mismatch": None}
                if t in rejected:
                    reached = rejected[t][2]
                    cands = [m for m in mism.get(t, []) if m[2] == reached + 1]
                    ev = results[i]["events"][reached] if reached < len(results[i]["events"]) else None
                    v["mismatch"] = {
                        "event_index": reached + 1,
                        "event": {"a": ev["a"], "args": ev["args"]} if ev else None,
                        "failed_clauses": sorted({c for m in cands for c in m[3]}) or ["<action not enabled in the specification>"],
                    }
                for x in invs.get(t, []):
                    v["inv"].append({"at": x[2], "names": x[3]})
                if prop:
                    v["action_property"] = prop  # refined by the caller (per-trace rerun)
                verdicts[i] = v
    import shutil

    shutil.rmtree(wd, ignore_errors=True)
    for i, r in enumerate(results):
        if verdicts[i] is None:
            verdicts[i] = {"accepted": False, "machinery": r.get("machinery", "?"), "inv": [], "mismatch": None}
    return verdicts, stats


if __name__ == "__main__":
    from .plans import PLANS

    n = int(sys.argv[1]) if len(sys.argv) > 1 else 20
    names = sys.argv[2].split(",") if len(sys.argv) > 2 else list(PLANS)
    seed0 = int(os.environ.get("VERIF_SEED", "0"))
    jobs = [(PLANS[p], "random", seed0 * 100003 + k) for p in names for k in range(n)]
    pname = [p for p in names for k in range(n)]
    t0 = time.time()
    results = execute(jobs)
    t1 = time.time()
    fix = fixed_set()
    verdicts, stats = validate(results, fix)
    t2 = time.time()
    nev = sum(len(r.get("events", [])) for r in results)
    print(f"{len(results)} executions, {nev} events, run {t1-t0:.1f}s, tlc {t2-t1:.1f}s, fix={fix}", stats["generated"], stats["distinct"])
    for e in stats["tlc_errors"][:2]:
        print("TLC ERROR:", e)
    bad = 0
    hangs = sum(1 for r in results if r.get("verdict", {}).get("end") == "hang")
    seen = set()
    for pn, (plan, mode, seed), r, v in zip(pname, jobs, results, verdicts):
        if not v["accepted"] or v["inv"] or "machinery" in v:
            bad += 1
            key = (pn, json.dumps(v.get("mismatch") and v["mismatch"]["failed_clauses"]), json.dumps([x["names"] for x in v["inv"]][:1]))
            if key not in seen:
                seen.add(key)
                print(pn, "SEED", seed, {k: x for k, x in v.items() if x}, r.get("verdict"))
    print("bad", bad, "hangs", hangs)
