"""B1: behaviours exported by TLC (MC_Config: seal / identifier request / assignment histories) replayed on real objects"""
import codecs
import os
import sys
import json
import random
import re

from . import cfgreal as R

BEH = re.compile(r'^<<"BEH", "(.*)">>$')


def parse_behaviours(text):
    out = []
    for line in text.splitlines():
        m = BEH.match(line.strip())
        if m:
            out.append(json.loads(codecs.decode(m.group(1), "unicode_escape")))
    return out


XP = None


def dry_experiment():
    """One dry-run experiment per process: Task.submit() seals, computes the job identifier, marks the outputs"""
    global XP
    if XP is None:
        import tempfile
        from experimaestro import experiment, RunMode

        d = tempfile.mkdtemp(prefix="xvcfg-", dir=os.environ.get("XV_SCRATCH", "/dev/shm"))
        XP = experiment(d, "cfg", run_mode=RunMode.DRY_RUN, port=-1)
        XP.__enter__()
        import atexit, shutil

        atexit.register(lambda: shutil.rmtree(d, ignore_errors=True))
    return XP


def replay(beh, rng=None):
    """Returns None when the real objects follow the behaviour, else a description of the first difference"""
    if any(a[0] == "submit" for a in beh["hist"]):
        dry_experiment()
    objs = R.build(beh["g"], rng)
    with R.Tap() as tap:
        for k, act in enumerate(beh["hist"]):
            kind, n = act[0], act[1]
            o = objs[n]
            if kind == "seal":
                R.seal(o)
            elif kind == "id":
                rid = o.__xpm__.raw_identifier
                got = tap.stream(rid.all)
                if got != act[2]:
                    return {"step": k, "action": act[:2], "what": "identifier stream differs from the specification",
                            "got_len": len(got), "want_len": len(act[2])}
                full = o.__xpm__.full_identifier
                if full.all != __import__("hashlib").sha256(rid.all).digest():
                    return {"step": k, "action": act[:2], "what": "full identifier is not SHA-256(raw) for a configuration without pre/init tasks"}
            elif kind == "submit":
                o.submit()
                rid = o.__xpm__.raw_identifier
                got = tap.stream(rid.all)
                if got != act[2]:
                    return {"step": k, "action": act[:2], "what": "job identifier stream differs from the specification"}
                if objs["1"].__xpm__.task is not o:
                    return {"step": k, "action": act[:2], "what": "the output was not marked as produced by the task"}
            elif kind == "set":
                v = R.pyval(act[2], objs)
                try:
                    o.c = v
                    res = "ok"
                except AttributeError:
                    res = "rejected"
                if res != act[3]:
                    return {"step": k, "action": act, "what": f"assignment {res}, the specification says {act[3]}"}
    return None
