"""Configuration checks: code -> spec conformance of the identifier stream (Enc) and friends"""
import json
import os
import random
import sys
import time

os.environ["XPM_VERIF"] = "1"

from . import cfgreal as R
from . import tlc


GEN_ARG = {"K": "p", "K2": "q", "K2Old": "q", "K2Older": "q", "T": "r", "G": "p", "GF": "p"}


def observe(graph, rng=None, seal_root=True):
    """Builds the graph with the real classes and observes: the canonical (cache-free) identifier stream of
    every node, the collected pre-tasks, then -- after sealing from one root -- the sealed set, the generated
    paths and the identifiers again.  Returns (case for TLC, list of differences seen on the Python side)"""
    import hashlib
    from pathlib import Path

    from experimaestro.core.objects import HashComputer

    diffs = []
    objs = R.build(graph, rng)
    node_of = {id(o): n for n, o in objs.items()}
    streams, pre, raws, fulls = {}, {}, {}, {}
    with R.Tap() as tap:
        order = list(objs)
        if rng:
            rng.shuffle(order)
        for n in order:
            o = objs[n]
            rid = o.__xpm__.raw_identifier
            raws[n] = rid.all
            streams[n] = tap.stream(rid.all)
            pre[n] = sorted({node_of[id(p)] for p in o.__xpm__.collect_pre_tasks()})
        for n in order:
            o = objs[n]
            fulls[n] = o.__xpm__.full_identifier.all
            h = hashlib.sha256(raws[n])
            for x in sorted(raws[p] for p in pre[n]):
                h.update(x)
            if graph[n]["init"]:
                h.update(HashComputer.INIT_TASKS)
                for i in graph[n]["init"]:
                    h.update(raws[i])
            if h.digest() != fulls[n]:
                diffs.append(f"node {n}: full identifier is not SHA-256(raw, sorted pre-task ids, init-task ids)")
        case = {"g": graph, "streams": streams, "loops": {}, "pre": pre, "sealed": {}, "gen": {}, "defs": {}, "inst": {}, "sstreams": {}}
        if seal_root:
            root = (rng or random).choice(sorted(objs))
            try:
                R.seal(objs[root])
            except Exception as e:  # noqa
                diffs.append(f"sealing {root} raised {e!r}")
                return case, diffs
            case["sealed"][root] = sorted(n for n, o in objs.items() if o.__xpm__._sealed)
            gen = {}
            for n, o in objs.items():
                a = GEN_ARG.get(graph[n]["cls"])
                if a and o.__xpm__._sealed:
                    v = o.__xpm__.values.get(a)
                    try:
                        gen[n] = list(Path(v).relative_to("/job").parts)
                    except Exception:
                        gen[n] = ["<outside the job directory>", str(v)]
            case["gen"][root] = gen
            # identifiers requested again after sealing: handed to TLC with the sealed set (the specification says
            # which parameters are skipped given what is sealed), and compared with the identifiers before
            sealed_now = set(case["sealed"][root])
            copies = {n for n in graph if graph[n].get("dflt") == "copy" and n in sealed_now}     # untouched copies of a configuration-valued default
            sstreams = {}
            for n in order:
                o = objs[n]
                rid = o.__xpm__.raw_identifier.all
                try:
                    sstreams[n] = tap.stream(rid)
                except KeyError:
                    pass    # served from the cache of a sealed configuration: nothing was hashed again
                if rid != raws[n] or o.__xpm__.full_identifier.all != fulls[n]:
                    which = "raw" if rid != raws[n] else "full"
                    if copies and reaches(graph, n, copies):
                        diffs.append(f"node {n} ({which}): identifier changed after sealing/config-default copy")
                    else:
                        diffs.append(f"node {n}: {which} identifier changed after sealing {root}")
            case["sstreams"] = {root: sstreams}
    return case, diffs


def reaches(graph, n, targets):
    """Is one of `targets` reachable from n through parameter values, pre-/init tasks and task links?"""
    seen, todo = {n}, [n]

    def cfgs(v):
        if v[0] == "cfg":
            yield v[1]
        elif v[0] == "list":
            for x in v[1]:
                yield from cfgs(x)
        elif v[0] == "dict":
            for _, x in v[1]:
                yield from cfgs(x)

    while todo:
        m = todo.pop()
        if m in targets:
            return True
        nxt = [x for v in graph[m]["vals"].values() for x in cfgs(v)] + list(graph[m]["pre"]) + list(graph[m]["init"])
        if graph[m]["task"] != "0":
            nxt.append(graph[m]["task"])
        for x in nxt:
            if x not in seen:
                seen.add(x)
                todo.append(x)
    return False


def run_enc(cases, fix=True):
    wd = tlc.workdir("cfg")
    res_all = []
    shards = [cases[k : k + 150] for k in range(0, len(cases), 150)]
    from concurrent.futures import ThreadPoolExecutor

    def one(item):
        k, part = item
        f = wd / f"c{k}.json"
        f.write_text(json.dumps(part))
        return tlc.tlc("XpmConfig_Enc.tla", "XpmConfig_Enc.cfg", workers=1, env={"TRACE_FILE": str(f)}, timeout=1800)

    with ThreadPoolExecutor(max_workers=16) as ex:
        res_all = list(ex.map(one, enumerate(shards)))
    import shutil

    shutil.rmtree(wd, ignore_errors=True)
    return res_all


if __name__ == "__main__":
    import logging, warnings
    warnings.filterwarnings("ignore"); logging.disable(logging.CRITICAL)
    n = int(sys.argv[1]) if len(sys.argv) > 1 else 50
    rng = random.Random(int(os.environ.get("VERIF_SEED", "0")))
    cases = []
    t0 = time.time()
    for k in range(n):
        g = R.rand_graph(rng, rng.choice([1, 2, 3, 3, 4]))
        try:
            c, d = observe(g, rng)
            if d:
                print("PYDIFF", d[:2])
        except Exception as e:
            print("BUILD/ID FAILED", repr(e)[:200], json.dumps(g)[:300])
            continue
        cases.append(c)
    t1 = time.time()
    rs = run_enc(cases)
    print(f"{len(cases)} graphs, observe {t1-t0:.1f}s, tlc {time.time()-t1:.1f}s")
    for r in rs:
        if not r.ok:
            print(r.violation, r.error)
            for line in r.out.splitlines():
                if "MISMATCH" in line or "Error" in line:
                    print(line[:400])
            break
