"""C12 / C13: writing and loading configuration graphs, runtime objects -- observations on real objects"""
import os

os.environ["XPM_VERIF"] = "1"
import json
import random
import shutil
import tempfile
from enum import Enum
from pathlib import Path

from experimaestro import from_state_dict, load, save, state_dict
from experimaestro.core.context import SerializationContext
from experimaestro.core.objects import Config, ConfigInformation
from experimaestro.xpmutils import DirectoryContext

from xvschema import cfg as S

from . import cfgreal as R


def matches(graph, n, o, mapping, problems, where, instance=False, sealed_vals=False):
    """Parallel walk: does the real object o (configuration or runtime instance) mirror node n of the graph?"""
    if n in mapping:
        if mapping[n] is not o:
            problems.append(f"{where}: node {n} is represented by two different objects (sharing lost)")
        return
    if any(v is o for v in mapping.values()):
        problems.append(f"{where}: one object stands for two distinct nodes ({n})")
        return
    mapping[n] = o
    spec = graph[n]
    want_cls = R.CLS[spec["cls"]]
    if instance:
        if not isinstance(o, want_cls) or isinstance(o, type) or hasattr(o, "__xpm__"):
            problems.append(f"{where}: node {n} is not a runtime object of {spec['cls']}: {type(o)}")
            return
    else:
        if not isinstance(o, Config) or o.__xpmtype__ is not want_cls.__getxpmtype__():
            problems.append(f"{where}: node {n} has class {type(o).__name__}, expected {spec['cls']}")
            return
        meta = {None: "none", True: "true", False: "false"}[o.__xpm__.meta]
        if meta != spec["meta"]:
            problems.append(f"{where}: node {n} meta flag is {meta}, was {spec['meta']}")
        for kind, real in (("pre", o.__xpm__.pre_tasks), ("init", o.__xpm__.init_tasks)):
            if len(real) != len(spec[kind]):
                problems.append(f"{where}: node {n} has {len(real)} {kind}-tasks, had {len(spec[kind])}")
            else:
                for i, t in zip(spec[kind], real):
                    matches(graph, i, t, mapping, problems, where, instance, sealed_vals)
        t = o.__xpm__.task
        if spec["task"] == "0":
            if t is not None and t is not o:
                problems.append(f"{where}: node {n} gained a task link")
        else:
            if t is None:
                problems.append(f"{where}: node {n} lost its task link")
            else:
                matches(graph, spec["task"], t, mapping, problems, where, instance, sealed_vals)
    args = want_cls.__getxpmtype__().arguments
    for a, v in spec["vals"].items():
        try:
            real = getattr(o, a) if instance else o.__xpm__.values[a]
        except (KeyError, AttributeError):
            problems.append(f"{where}: node {n} has no value for {a}")
            continue
        cmp_value(graph, v, real, mapping, problems, f"{where}: node {n}.{a}", instance, sealed_vals)


def cmp_value(graph, v, real, mapping, problems, where, instance, sealed_vals):
    t = v[0]
    if t == "none":
        if real is not None:
            problems.append(f"{where} is {real!r}, was None")
    elif t == "int":
        if type(real) is not int or real != v[1]:
            problems.append(f"{where} is {real!r}, was int {v[1]}")
    elif t == "float":
        if type(real) is not float or real != float(v[1]):
            problems.append(f"{where} is {real!r}, was float {v[1]}")
    elif t == "str":
        if type(real) is not str or real != v[1]:
            problems.append(f"{where} is {real!r}, was str {v[1]!r}")
    elif t == "enum":
        if real is not S.Color[v[1]]:
            problems.append(f"{where} is {real!r}, was Color.{v[1]}")
    elif t == "cfg":
        matches(graph, v[1], real, mapping, problems, where.split(":")[0], instance, sealed_vals)
    elif t == "list":
        if not isinstance(real, list) or len(real) != len(v[1]):
            problems.append(f"{where} is {real!r}, was a list of {len(v[1])}")
        else:
            for i, (x, r) in enumerate(zip(v[1], real)):
                cmp_value(graph, x, r, mapping, problems, f"{where}[{i}]", instance, sealed_vals)
    elif t == "dict":
        if not isinstance(real, dict) or sorted(real) != sorted(k for k, _ in v[1]):
            problems.append(f"{where} is {real!r}, keys were {[k for k, _ in v[1]]}")
        else:
            for k, x in v[1]:
                cmp_value(graph, x, real[k], mapping, problems, f"{where}[{k}]", instance, sealed_vals)


def observe_io(graph, sd):
    """Returns (case for TLC: defs order, instantiated nodes / pre-tasks; list of problems seen on the Python side)"""
    rng = random.Random(sd)
    problems = []
    objs = R.build(graph, None)
    # an identifier is asked for, then a parameter is changed (still unsealed): what is written afterwards is the new state
    import copy as _copy

    graph = _copy.deepcopy(graph)
    cands = [n for n in graph if graph[n]["cls"] in ("K", "K2", "PX", "QX", "OD") and not graph[n].get("dflt") and graph[n]["vals"]["a"][0] == "int"]
    if cands and rng.random() < 0.5:
        n = rng.choice(cands)
        for o in objs.values():
            o.__xpm__.full_identifier
        newa = 40 + rng.randrange(5)
        objs[n].a = newa
        graph[n]["vals"]["a"] = ["int", newa]
    node_of = {id(o): n for n, o in objs.items()}
    root = rng.choice(sorted(objs))
    ro = objs[root]
    ids0 = {n: (o.__xpm__.raw_identifier.all, o.__xpm__.full_identifier.all) for n, o in objs.items()}
    case = {"g": graph, "streams": {}, "loops": {}, "pre": {}, "sealed": {}, "gen": {}, "defs": {}, "inst": {}, "sstreams": {}}

    # --- the definition list
    defs = ro.__xpm__.__get_objects__([], SerializationContext())
    try:
        case["defs"][root] = [node_of[d["id"]] for d in defs]
    except KeyError:
        problems.append("definition list names an unknown object")
    defs = json.loads(json.dumps(defs))  # what is written is JSON

    def check_loaded(newroot, how):
        mapping = {}
        matches(graph, root, newroot, mapping, problems, how)
        # used as a parameter of a new configuration, what was loaded contributes what the original contributes
        try:
            if S.K2(a=77, c=newroot).__xpm__.raw_identifier.all != S.K2(a=77, c=ro).__xpm__.raw_identifier.all:
                problems.append(f"{how}: identifier of a new holder of the reloaded node {root} differs from the identifier of a holder of the original")
        except Exception as e:
            problems.append(f"{how}: identifier of a holder of the reloaded configuration cannot be computed: {e!r}"[:200])
        for n, o in mapping.items():
            try:
                o.__xpm__._raw_identifier = None
                o.__xpm__._full_identifier = None
                got = (o.__xpm__.raw_identifier.all, o.__xpm__.full_identifier.all)
            except Exception as e:
                problems.append(f"{how}: identifier of reloaded node {n} cannot be recomputed: {e!r}"[:200])
                continue
            if got != ids0[n]:
                problems.append(f"{how}: identifier of reloaded node {n} differs from the original "
                                f"({'raw' if got[0] != ids0[n][0] else 'full'})")

    try:
        loaded = ConfigInformation.fromParameters(defs, as_instance=False)
        check_loaded(loaded, "params.json")
        # second generation: what was loaded is written and loaded again
        defs_b = json.loads(json.dumps(loaded.__xpm__.__get_objects__([], SerializationContext())))
        check_loaded(ConfigInformation.fromParameters(defs_b, as_instance=False), "params.json (written again after loading)")
        sd2 = json.loads(json.dumps(state_dict(SerializationContext(), loaded)))
        check_loaded(from_state_dict(sd2), "state_dict (written again after loading)")
    except Exception as e:
        problems.append(f"params.json: loading raised {e!r}"[:300])
    try:
        sdict = json.loads(json.dumps(state_dict(SerializationContext(), ro)))
        check_loaded(from_state_dict(sdict), "state_dict")
    except Exception as e:
        problems.append(f"state_dict: raised {e!r}"[:300])
    d = Path(tempfile.mkdtemp(prefix="xvio-", dir=os.environ.get("XV_SCRATCH", "/dev/shm")))
    try:
        save(ro, d)
        check_loaded(load(d), "save/load")
    except Exception as e:
        problems.append(f"save/load: raised {e!r}"[:300])
    finally:
        shutil.rmtree(d, ignore_errors=True)

    # --- runtime objects, direct route
    S.CALLS.clear()
    try:
        inst = ro.instance(DirectoryContext(Path("/job")))
    except Exception as e:
        problems.append(f"instance(): raised {e!r}"[:300])
        return case, problems
    mapping = {}
    matches(graph, root, inst, mapping, problems, "instance()", instance=True)
    # pre/init task objects are runtime objects too, not reachable through attributes: count by calls
    posts = [c[1] for c in S.CALLS if c[0] == "post_init"]
    execs = [c[1] for c in S.CALLS if c[0] == "execute"]
    for n, o in mapping.items():
        c = posts.count(id(o))
        if c != 1:
            problems.append(f"instance(): __post_init__ of node {n} called {c} times")
    if len(set(posts)) != len(posts):
        problems.append("instance(): some object was post-initialised twice")
    if len(set(execs)) != len(execs):
        problems.append("instance(): a pre-task was executed twice")
    case["inst"][root] = {"nodes": len(set(posts)), "pre": len(execs)}

    # --- validated on its own first (validate() is public), then turned into objects: generated values are there
    try:
        objsv = R.build(graph, None)
        objsv[root].__xpm__.validate()
        instv = objsv[root].instance(DirectoryContext(Path("/job")))
        mpv = {}
        matches(graph, root, instv, mpv, [], "", instance=True)
        for n in mpv:
            o = objsv[n]
            a = {"K": "p", "K2": "q", "K2Old": "q", "K2Older": "q", "G": "p", "GF": "p"}.get(graph[n]["cls"])
            if a and o.__xpm__.values.get(a) is None:
                problems.append(f"instance() after validate(): the generated parameter {a} of node {n} was never generated")
                break
    except Exception as e:
        problems.append(f"instance() after validate(): raised {e!r}"[:300])

    # --- a second instance() call sharing the object store: nothing is rebuilt, re-initialised or re-executed
    from experimaestro import ObjectStore

    objs2 = R.build(graph, None)
    store = ObjectStore()
    S.CALLS.clear()
    try:
        order = sorted(objs2)
        rng.shuffle(order)
        first = {}
        built = set()
        owners = {x: {m for m in graph if x in graph[m]["pre"]} for x in graph}
        for n in order[:3]:
            before = len(S.CALLS)
            i = objs2[n].instance(DirectoryContext(Path("/job")), objects=store)
            mp = {}
            matches(graph, n, i, mp, problems, "instance() with a shared store", instance=True)
            for m, o in mp.items():
                if m in first and first[m] is not o:
                    problems.append(f"instance() with a shared store: node {m} was built twice")
                first.setdefault(m, o)
            inst_node = {id(store.retrieve(id(o))): m for m, o in objs2.items() if store.retrieve(id(o)) is not None}
            for call in S.CALLS[before:]:
                kind, oid = call[0], call[1]
                m = inst_node.get(oid)
                if kind == "execute" and m is not None and owners[m] and owners[m] <= built:
                    problems.append(f"instance() with a shared store: pre-task {m} of already built objects was executed again")
            built |= set(mp)
        posts2 = [c[1] for c in S.CALLS if c[0] == "post_init"]
        if len(set(posts2)) != len(posts2):
            problems.append("instance() with a shared store: an object was post-initialised again by a later call")
    except Exception as e:
        problems.append(f"instance() with a shared store: raised {e!r}"[:300])

    # --- a post-initialisation that fails once: the retry with the same store must not hand out the half-built object
    k2s = [n for n in graph if graph[n]["cls"] == "K2" and not graph[n].get("dflt")]
    if k2s:
        objs3 = R.build(graph, None)
        store3 = ObjectStore()
        n = rng.choice(k2s)
        S.CALLS.clear()
        S.FAIL_POST_INIT.append(1)
        try:
            objs3[n].instance(DirectoryContext(Path("/job")), objects=store3)
            S.FAIL_POST_INIT.clear()      # (the failing object was not the first K2 reached: nothing to observe)
        except RuntimeError:
            S.FAIL_POST_INIT.clear()
            try:
                i = objs3[n].instance(DirectoryContext(Path("/job")), objects=store3)
                mp = {}
                matches(graph, n, i, mp, problems, "instance() again after a failed post-initialisation", instance=True)
                posts3 = [c[1] for c in S.CALLS if c[0] == "post_init"]
                if id(i) not in posts3:
                    problems.append("instance() again after a failed post-initialisation: the object returned was never post-initialised")
            except Exception as e:
                problems.append(f"instance() again after a failed post-initialisation: raised {e!r}"[:300])
        except Exception as e:
            S.FAIL_POST_INIT.clear()
            problems.append(f"instance() with a failing post-initialisation: raised {e!r}"[:300])

    # --- runtime objects, parameter-file route (what run.py does)
    defs2 = json.loads(json.dumps(ro.__xpm__.__get_objects__([], SerializationContext())))
    S.CALLS.clear()
    try:
        inst2 = ConfigInformation.fromParameters(defs2, as_instance=True)
    except Exception as e:
        problems.append(f"params.json as instance: raised {e!r}"[:300])
        return case, problems
    mapping2 = {}
    matches(graph, root, inst2, mapping2, problems, "params.json as instance", instance=True)
    posts = [c[1] for c in S.CALLS if c[0] == "post_init"]
    execs = [c[1] for c in S.CALLS if c[0] == "execute"]
    exec_ks = [c[2] for c in S.CALLS if c[0] == "execute"]
    if len(posts) != len(defs2) or len(set(posts)) != len(posts):
        problems.append(f"params.json as instance: {len(posts)} post-initialisations for {len(defs2)} definitions")
    want_pre = {i for d in defs2 for i in d.get("pre-tasks", [])}
    want_init = defs2[-1].get("init-tasks", [])
    if len(want_init) != len(graph[root]["init"]):
        problems.append(f"params.json as instance: the definition of the task lists {len(want_init)} init tasks, the task was configured with {len(graph[root]['init'])}")
    if len(execs) != len(want_pre) + len(want_init):
        problems.append(f"params.json as instance: {len(execs)} lightweight task executions, expected {len(want_pre)} pre-tasks + {len(want_init)} init tasks")
    kinds = [c[0] for c in S.CALLS]
    if execs and posts and kinds.index("execute") < len(kinds) - 1 - kinds[::-1].index("post_init"):
        problems.append("params.json as instance: a lightweight task ran before every object was initialised")
    # the init tasks run after the pre-tasks (the order of the executions is told by the tasks' own parameter k)
    by_id = {d["id"]: d for d in defs2}
    kof = lambda i: (by_id[i].get("fields", {}).get("k") if by_id[i]["type"] == "LW" else None)
    pre_ks, init_ks = [kof(i) for i in want_pre], [kof(i) for i in want_init]
    if want_init and None not in pre_ks + init_ks and not set(pre_ks) & set(init_ks) and len(exec_ks) == len(pre_ks) + len(init_ks):
        if sorted(exec_ks[: len(pre_ks)], key=str) != sorted(pre_ks, key=str) or exec_ks[len(pre_ks):] != init_ks:
            problems.append(f"params.json as instance: init tasks do not run after the pre-tasks, in their order (executed k = {exec_ks}, pre-tasks {pre_ks}, init tasks {init_ks})")
    case["inst_file"] = {"defs": len(defs2), "pre": len(want_pre), "init": len(want_init), "execs": len(execs)}

    # --- identifier asked for, parameter changed, then sealed and written: the identifiers written are those of the final state
    cands = [n for n in graph if graph[n]["cls"] in ("K", "K2", "PX", "QX", "OD") and not graph[n].get("dflt") and graph[n]["vals"]["a"][0] == "int"]
    if cands:
        try:
            g2 = _copy.deepcopy(graph)
            n = rng.choice(cands)
            oa = R.build(g2, None)
            for o in oa.values():
                o.__xpm__.full_identifier
            g2[n]["vals"]["a"] = ["int", 50 + rng.randrange(5)]
            oa[n].a = g2[n]["vals"]["a"][1]
            ob = R.build(g2, None)
            R.seal(oa[root])
            R.seal(ob[root])
            da = {d["id"]: d["identifier"] for d in oa[root].__xpm__.__get_objects__([], SerializationContext())}
            db = {d["id"]: d["identifier"] for d in ob[root].__xpm__.__get_objects__([], SerializationContext())}
            for m in g2:
                if id(oa[m]) in da and id(ob[m]) in db and da[id(oa[m])] != db[id(ob[m])]:
                    problems.append(f"params.json: identifier of node {m} written after (identifier request, assignment, sealing) is not the identifier of the final state")
                    break
        except Exception as e:
            problems.append(f"params.json: (identifier request, assignment, sealing, writing) raised {e!r}"[:300])
    return case, problems
