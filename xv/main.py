"""Entry point of /verif/check"""
import argparse
import logging
import os
import sys
import warnings

warnings.filterwarnings("ignore")
logging.disable(logging.CRITICAL)

SCHED = {"C04", "C06", "C07", "C08", "C09"}


def main():
    ap = argparse.ArgumentParser()
    ap.add_argument("prop")
    ap.add_argument("--tier", default=os.environ.get("VERIF_TIER", "quick"), choices=["quick", "thorough"])
    ap.add_argument("--replay")
    a = ap.parse_args()
    if a.prop in ("C06", "C08", "C09"):
        from . import checks_sched, checks_token
        import json

        tokname = None
        if a.replay:
            tokname = json.load(open(a.replay))["payload"].get("token_scenario")
        if tokname:
            from .common import Report

            rep = Report(a.prop, a.tier, "model_checking")
        else:
            rep = checks_sched.run(a.prop, a.tier, a.replay, finish=False)
            if isinstance(rep, int) or a.replay:
                return rep if isinstance(rep, int) else rep.finish()
        checks_token.run(rep, a.prop, a.tier, tokname)
        if a.prop == "C06" and not a.replay:
            from . import checks_restart

            checks_restart.run_signals(rep, a.prop)
        return rep.finish()
    if a.prop in SCHED:
        from . import checks_sched

        if a.prop in ("C04", "C07") and not a.replay:
            rep = checks_sched.run(a.prop, a.tier, a.replay, finish=False)
            if isinstance(rep, int):
                return rep
            from . import checks_restart

            checks_restart.run_signals(rep, a.prop)
            return rep.finish()
        return checks_sched.run(a.prop, a.tier, a.replay)
    if a.prop in ("C01", "C02", "C03", "C12", "C13", "C14", "C17", "C20"):
        from . import checks_config

        return checks_config.run(a.prop, a.tier, a.replay)
    if a.prop in ("C15", "C18", "C19"):
        from . import checks_functions

        return checks_functions.run(a.prop, a.tier, a.replay)
    if a.prop == "C16":
        from . import ws_commands

        return ws_commands.run_c16(a.tier, a.replay)
    if a.prop == "C10":
        from . import checks_jobdir, checks_sched
        import json

        kind = None
        if a.replay:
            kind = "sched" if "plan" in json.load(open(a.replay))["payload"] else "jobdir"
        rep = None
        if kind in (None, "sched"):
            # the scheduler's half of the protocol (lock held over spawn and pid file, what it leaves when a start fails)
            rep = checks_sched.run(a.prop, a.tier, a.replay, finish=False)
            if isinstance(rep, int):
                return rep
        return checks_jobdir.run(a.prop, a.tier, a.replay, rep=rep)
    if a.prop in ("C05", "C11"):
        from . import checks_jobdir, checks_sched
        import json

        kind = None
        if a.replay:
            pl = json.load(open(a.replay))["payload"]
            kind = "sched" if "plan" in pl else "adopt" if "adopt" in pl else "token" if "token_scenario" in pl else "jobdir"
        rep = None
        if kind == "token":
            from . import checks_token
            from .common import Report

            rep = Report(a.prop, a.tier, "model_checking")
            checks_token.run(rep, a.prop, a.tier, replay_name=pl["token_scenario"])
            return rep.finish()
        if kind == "adopt":
            from . import checks_adopt
            from .common import Report

            rep = Report(a.prop, a.tier, "model_checking")
            checks_adopt.replay(rep, a.prop, pl)
            return rep.finish()
        if kind in (None, "sched"):
            rep = checks_sched.run(a.prop, a.tier, a.replay, finish=False)
            if isinstance(rep, int):
                return rep
        if kind is None:
            # the look-up of a job left by an earlier run, interleaved with the last steps of that job (XpmAdopt)
            from . import checks_adopt

            checks_adopt.run(rep, a.prop, a.tier)
        if kind in (None, "jobdir"):
            # C05: competing launches; C11: the relaunch by a restarted scheduler while the orphan job still runs
            rep = checks_jobdir.run(a.prop, a.tier, a.replay, rep=rep, finish=False)
            if isinstance(rep, int):
                return rep
        if a.prop == "C05" and not a.replay:
            # ... nor by a later experiment of whatever mode, on real workspaces (XpmWorkspace)
            from . import ws_commands
            from .common import seed as _seed

            ws_commands.behaviours(rep, "C05", a.tier, _seed())
        if a.prop == "C11" and not a.replay:
            # running the same experiment again in another process must name the same job directories
            from . import checks_config

            checks_config.hashseeds(rep, 60 if a.tier == "quick" else 600, 17, prop="C11")
            # the real scheduler process killed along its launch path, then the same experiment again
            from . import checks_restart

            checks_restart.run(rep, a.tier)
            # ... and the token directory a dead scheduler left (token.info truncated, not yet written)
            from . import checks_token

            checks_token.run(rep, "C11", a.tier, only=["info_torn"])
        return rep.finish()
    print(f"no check for {a.prop}", file=sys.stderr)
    return 2


if __name__ == "__main__":
    sys.exit(main())
