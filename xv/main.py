"""Entry point of /verif/check"""
import argparse
import logging
import os
import sys
import warnings

warnings.filterwarnings("ignore")
logging.disable(logging.CRITICAL)

SCHED = {"C04", "C06", "C07", "C08", "C09"}


def main():
    ap = argparse.ArgumentParser()
    ap.add_argument("prop")
    ap.add_argument("--tier", default=os.environ.get("VERIF_TIER", "quick"), choices=["quick", "thorough"])
    ap.add_argument("--replay")
    a = ap.parse_args()
    if a.prop in SCHED:
        from . import checks_sched

        return checks_sched.run(a.prop, a.tier, a.replay)
    print(f"no check for {a.prop}", file=sys.stderr)
    return 2


if __name__ == "__main__":
    sys.exit(main())
