import json, sys, os
from . import e1
from .plans import PLANS
plan = PLANS[sys.argv[1]]
seed = int(sys.argv[2])
lo, hi = (int(sys.argv[3]), int(sys.argv[4])) if len(sys.argv) > 4 else (0, 10**9)
import logging, warnings
warnings.filterwarnings("ignore"); logging.disable(logging.CRITICAL)
r = e1.run_plan(plan, e1.RandomChooser(seed))
for k, e in enumerate(r["events"], 1):
    if lo <= k <= hi:
        st = e["st"]
        print(k, e["a"], e["args"])
        print("    insts", {i: (v["state"], v["unsat"], v["ev"], v["pc"], v["dstat"], v["held"]) for i, v in st["insts"].items()})
        print("    ready", st["ready"], "threads", st["threads"], "avail", st["avail"], "unf", st["unfinished"], "waiter", st["waiter"])
        print("    world", {n: (w["done"], w["pid"], w["procs"], w["lock"]) for n, w in st["world"].items()})
print(r["verdict"], r["thread_errors"])

if os.environ.get("XV_TLC"):
    from . import sched, tlc
    os.environ["XV_DEBUG"] = "1"
    v, st = sched.validate([r], sched.fixed_set())
    print(v)
