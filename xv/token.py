"""C08 / C09, multi-process half: scenarios of real processes sharing a file token, validated against XpmTokenFS.tla"""
import sys
import time
from concurrent.futures import ThreadPoolExecutor

from . import e2_token as e2
from . import tlc


def run_scenarios(names, reps=1, workers=6):
    jobs = [n for n in names for _ in range(reps)]
    with ThreadPoolExecutor(max_workers=workers) as ex:
        out = list(ex.map(lambda n: e2.SCENARIOS[n](), jobs))
    return jobs, out


def run_random(seeds, workers=6):
    seeds = list(seeds)
    with ThreadPoolExecutor(max_workers=workers) as ex:
        out = list(ex.map(e2.sc_random, seeds))
    return [f"random:{s}" for s in seeds], out


def announced_deletion_variant(ev, reached):
    """The log orders the *announcements*: a reclaim thread logs tok.file.delete before it unlinks, a recount has no event of its
    own (it happens between tok.acq.lock and tok.acq.count of its process). When a reclaim thread announces a deletion inside
    that window, the log cannot tell whether the recount saw the file: both orders are executions of the code. If the trace is
    rejected at such a tok.acq.count, the other order -- the deletion after the count -- is validated as well (the trace is
    accepted iff one of the two orders is a behaviour of the model). Returns the reordered event list, or None"""
    if reached is None or reached >= len(ev) or ev[reached]["e"] != "tok.acq.count":
        return None
    p = ev[reached].get("p")
    lock = max((k for k in range(reached) if ev[k]["e"] == "tok.acq.lock" and ev[k].get("p") == p), default=None)
    if lock is None:
        return None
    moved = []
    for k in range(max(0, lock - 12), reached):
        e = ev[k]
        if e["e"] == "tok.file.delete" and (e.get("p") != p or e.get("job") != ev[lock].get("job")):
            # announced before the count; nothing logged since shows that the file was gone before the count (a deletion
            # event handled by some observer, a release that completed)
            if any(x["e"] in ("tok.evt.deleted", "tok.rel.ok") and x.get("job") == e.get("job") for x in ev[k + 1:reached]):
                continue
            moved.append(k)
            # (the decision of the same thread, logged just before, goes with it)
            if k > 0 and ev[k - 1]["e"] == "tok.watch.reclaim" and ev[k - 1].get("p") == e.get("p") and ev[k - 1].get("job") == e.get("job"):
                moved.append(k - 1)
    if not moved:
        return None
    moved = sorted(set(moved))
    return [ev[k] for k in range(reached + 1) if k not in moved] + [ev[k] for k in moved] + ev[reached + 1:]


def validate(results, fixed=True):
    traces = [{"wl": r["wl"], "ev": r["ev"]} for r in results]
    cfg = "XpmTokenFS_Trace.cfg" if fixed else "XpmTokenFS_Trace_pinned.cfg"
    verdicts, stats = tlc.validate_batch("XpmTokenFS_Trace.tla", cfg, traces, shard=8, deque=True)
    # second look at the traces rejected at a recount that a reclaim thread's announced deletion overlaps (at most 3 times each)
    stats["reordered"] = 0
    for _ in range(3):
        again = [(i, announced_deletion_variant(traces[i]["ev"], v["reached"])) for i, v in enumerate(verdicts) if not v["accepted"]]
        again = [(i, ev) for i, ev in again if ev is not None]
        if not again:
            break
        v2, s2 = tlc.validate_batch("XpmTokenFS_Trace.tla", cfg, [{"wl": traces[i]["wl"], "ev": ev} for i, ev in again], shard=8, deque=True)
        stats["errors"] += s2["errors"]
        for (i, ev), v in zip(again, v2):
            if v["accepted"] or (v["reached"] or 0) > (verdicts[i]["reached"] or 0):
                traces[i]["ev"] = ev
                results[i]["ev"] = ev           # (what is reported is the order that was validated)
                verdicts[i] = v
                stats["reordered"] += 1
    return verdicts, stats


if __name__ == "__main__":
    names = sys.argv[1].split(",") if len(sys.argv) > 1 else list(e2.SCENARIOS)
    reps = int(sys.argv[2]) if len(sys.argv) > 2 else 1
    t0 = time.time()
    jobs, res = run_scenarios(names, reps)
    t1 = time.time()
    v, st = validate(res, fixed=(sys.argv[3] != "pinned") if len(sys.argv) > 3 else True)
    print(f"{len(res)} scenarios run {t1-t0:.1f}s tlc {time.time()-t1:.1f}s", st["errors"][:1])
    for n, r, x in zip(jobs, res, v):
        ok = x["accepted"] and not x["inv"] and not r["problems"]
        print(n, "OK" if ok else "BAD", {k: y for k, y in x.items() if y}, r["problems"], "" if ok else r["ev"][(x["reached"] or 1) - 1:(x["reached"] or 1) + 2])
