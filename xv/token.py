"""C08 / C09, multi-process half: scenarios of real processes sharing a file token, validated against XpmTokenFS.tla"""
import sys
import time
from concurrent.futures import ThreadPoolExecutor

from . import e2_token as e2
from . import tlc


def run_scenarios(names, reps=1, workers=6):
    jobs = [n for n in names for _ in range(reps)]
    with ThreadPoolExecutor(max_workers=workers) as ex:
        out = list(ex.map(lambda n: e2.SCENARIOS[n](), jobs))
    return jobs, out


def validate(results, fixed=True):
    traces = [{"wl": r["wl"], "ev": r["ev"]} for r in results]
    cfg = "XpmTokenFS_Trace.cfg" if fixed else "XpmTokenFS_Trace_pinned.cfg"
    return tlc.validate_batch("XpmTokenFS_Trace.tla", cfg, traces, shard=8, deque=True)


if __name__ == "__main__":
    names = sys.argv[1].split(",") if len(sys.argv) > 1 else list(e2.SCENARIOS)
    reps = int(sys.argv[2]) if len(sys.argv) > 2 else 1
    t0 = time.time()
    jobs, res = run_scenarios(names, reps)
    t1 = time.time()
    v, st = validate(res, fixed=(sys.argv[3] != "pinned") if len(sys.argv) > 3 else True)
    print(f"{len(res)} scenarios run {t1-t0:.1f}s tlc {time.time()-t1:.1f}s", st["errors"][:1])
    for n, r, x in zip(jobs, res, v):
        ok = x["accepted"] and not x["inv"] and not r["problems"]
        print(n, "OK" if ok else "BAD", {k: y for k, y in x.items() if y}, r["problems"], "" if ok else r["ev"][(x["reached"] or 1) - 1:(x["reached"] or 1) + 2])
