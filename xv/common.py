"""Shared plumbing of the checks: evidence files, known findings, verdict printing"""
import json
import os
import sys
import time
from pathlib import Path

VERIF = Path(__file__).resolve().parent.parent
EVIDENCE = VERIF / "evidence"
REPLAYS = VERIF / "replays"
FINDINGS = VERIF / "known_findings.json"


def seed():
    try:
        return int(os.environ.get("VERIF_SEED", "0"))
    except ValueError:
        return 0


class Report:
    """Collects what a check did; decides the exit status"""

    def __init__(self, prop, tier, level):
        self.prop = prop
        self.tier = tier
        self.level = level
        self.t0 = time.time()
        self.cov = {
            "states": 0,
            "transitions": 0,
            "traces_validated_against_impl": 0,
            "evaluations": 0,
            "distinct_nontrivial": 0,
            "samples": [],
            "rule": "",
            "tlc_runs": [],
            "exhaustive": False,
        }
        self.assumptions = []
        self.violations = []  # (key, what, replay_payload)
        self.machinery = []
        known = json.loads(FINDINGS.read_text()) if FINDINGS.exists() else []
        self.known = [k for k in known if k["property"] == prop and k.get("status") == "known"]
        self.known_hit = {}

    # --- coverage
    def add_tlc(self, name, res, note=""):
        self.cov["states"] += res.distinct
        self.cov["transitions"] += res.generated
        self.cov["tlc_runs"].append(
            {"config": name, "distinct": res.distinct, "generated": res.generated, "depth": res.depth,
             "wall_s": round(res.wall, 1), "note": note}
        )

    def sample(self, x, limit=5):
        if len(self.cov["samples"]) < limit:
            self.cov["samples"].append(x)

    # --- verdicts
    def violation(self, key, what, payload=None):
        for k in self.known:
            if k["key"] == key:
                self.known_hit.setdefault(key, what)
                return
        self.violations.append((key, what, payload))

    def machinery_failure(self, what):
        self.machinery.append(what)

    def finish(self):
        wall = time.time() - self.t0
        EVIDENCE.mkdir(exist_ok=True)
        REPLAYS.mkdir(exist_ok=True)
        replay_paths = []
        for old in REPLAYS.glob(f"{self.prop}-*.json"):      # replays of an earlier run of this check say nothing about this one
            old.unlink()
        for n, (key, what, payload) in enumerate(self.violations[:5]):
            p = REPLAYS / f"{self.prop}-{n}.json"
            p.write_text(json.dumps({"property": self.prop, "key": key, "what": what, "payload": payload}, indent=1))
            replay_paths.append(p)
        cov = dict(self.cov)
        if not cov["samples"]:
            cov["samples"] = ["(no sample recorded)"]
        ev = {
            "property_id": self.prop,
            "tier": self.tier,
            "seed": seed(),
            "level": self.level,
            "coverage": cov,
            "assumptions": self.assumptions,
            "wall_s": round(wall, 2),
            "violations": len(self.violations),
            "known_findings_hit": sorted(self.known_hit),
        }
        (EVIDENCE / f"{self.prop}.json").write_text(json.dumps(ev, indent=1, default=str))
        for key, what in self.known_hit.items():
            print(f"KNOWN-FINDING: property={self.prop} {key}: {what}")
        if self.machinery:
            for m in self.machinery[:5]:
                print(f"MACHINERY-FAILURE property={self.prop} {m}", file=sys.stderr)
        if self.violations:
            for n, (key, what, payload) in enumerate(self.violations[:5]):
                print(f"  violation {key}: {what}")
            print(f"VIOLATION property={self.prop} replay={replay_paths[0]}")
            return 1
        if self.machinery:
            return 2
        print(f"OK property={self.prop} tier={self.tier} wall={wall:.1f}s states={cov['states']} "
              f"traces={cov['traces_validated_against_impl']} evaluations={cov['evaluations']}")
        return 0
