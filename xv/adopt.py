"""XpmAdopt.tla bound to the code: the look-up of a job left by an earlier run, interleaved with the last steps of that job

The scheduler of the new run and the orphan job are different processes: every file / process-table access of
``Scheduler.aio_submit`` (success marker, pid file, process look-up, liveness, wait) is a point where the orphan can
move.  The accesses of the *real* scheduler are intercepted (pathlib / psutil), and before each of them the harness
plays the steps of the orphan that the behaviour places there (marker, pid file removed, exit / kill) on the real job
directory and on a real (non-child) process.

 * spec -> code: every terminal behaviour exported by TLC (MC_Adopt.cfg) is replayed; the decision of the real scheduler
   (DONE / ERROR / launch) is compared with the specification's when the sequence of accesses is the specification's;
 * whatever the sequence of accesses, the outcome is judged by the invariants of the specification on the real
   observables (no launch when the success marker was there or while the job was in its body, DONE only for success...);
 * thorough: every placement of the orphan's steps over the accesses the code really makes (learnt from a first run).
"""
import itertools
import json
import os
import signal
import subprocess
import sys
import threading
import time
from pathlib import Path

from . import ws

JSTEPS = {"ok": ["JMark", "JUnpid", "JExit"], "fail": ["JMark", "JUnpid", "JExit"], "killed": ["JKilled"]}


class Orphan:
    """What the first run left: a job directory with a pid file naming a live process that is not our child"""

    def __init__(self, h, n, outcome, start, stopped=False):
        task, ident = h.ids[n]
        self.dir = h.wd / "jobs" / task / ident
        name = task.rsplit(".", 1)[-1]
        self.done, self.failed, self.pidf = (self.dir / (name + s) for s in (".done", ".failed", ".pid"))
        self.outcome = outcome
        self.jpc = "run"
        self.pid = None
        self.sh = None
        for p in (self.done, self.failed):
            if p.exists():
                p.unlink()
        if start in ("run", "spawned") or outcome == "killed":
            # (sh stays the parent of the sleeper and reaps it at once when it dies)
            self.sh = subprocess.Popen(["sh", "-c", "sleep 600 >/dev/null 2>&1 & echo $!; wait"], stdout=subprocess.PIPE, text=True)
            self.pid = int(self.sh.stdout.readline())
            if start == "spawned":
                # another scheduler is launching the job: the process exists, its pid file has not been opened yet
                self.jpc = "spawned"
                if self.pidf.exists():
                    self.pidf.unlink()
            else:
                self.pidf.write_text(json.dumps({"type": "local", "pid": self.pid}))
            if stopped:
                # the orphan is suspended (SIGSTOP, a debugger, a frozen cgroup): it exists, it holds what it holds, it will go on
                os.kill(self.pid, signal.SIGSTOP)
                t0 = time.time()
                import psutil

                while psutil.Process(self.pid).status() != psutil.STATUS_STOPPED and time.time() - t0 < 5:
                    time.sleep(0.005)
        if start == "gone":
            if outcome == "killed":
                self.step("JKilled")
            else:
                (self.done.touch() if outcome == "ok" else self.failed.write_text("1"))
                if self.pidf.exists():
                    self.pidf.unlink()
                self.jpc = "gone"

    def step(self, s):
        if s == "LOpen":
            open(self.pidf, "w").close()
            self.jpc = "pidopen"
        elif s == "LWrite":
            self.pidf.write_text(json.dumps({"type": "local", "pid": self.pid}))
            self.jpc = "run"
        elif s == "JMark":
            if self.outcome == "ok":
                self.done.touch()
            else:
                self.failed.write_text("1")
            self.jpc = "marked"
        elif s == "JUnpid":
            self.pidf.unlink()
            self.jpc = "unpid"
        else:  # JExit / JKilled
            os.kill(self.pid, signal.SIGKILL)
            self.sh.wait()
            self.jpc = "gone"

    def finish(self):
        if self.jpc != "gone" and self.sh:
            todo = ["LOpen", "LWrite"] + JSTEPS[self.outcome]
            k = {"spawned": 0, "pidopen": 1, "run": 2, "marked": 3, "unpid": 4}[self.jpc]
            for s in todo[k:]:
                self.step(s)

    def close(self):
        if self.sh and self.sh.poll() is None:
            try:
                os.kill(self.pid, signal.SIGKILL)
            except OSError:
                pass
            self.sh.wait()


class Hang(BaseException):
    pass


class Gate:
    """Interception of the scheduler's accesses to the orphan's files and process"""

    def __init__(self, orphan, plan):
        self.o = orphan
        self.plan = list(plan)          # J steps and None (= the next access of the scheduler), in order
        self.active = False
        self.lock = threading.Lock()
        self.accesses = []
        self.sawempty = False
        self.at_start = None            # what the workspace looked like when aio_start was entered
        self.crash = None

    def before(self, kind):
        with self.lock:
            if not self.active:
                return
            while self.plan and self.plan[0] is not None:
                self.o.step(self.plan.pop(0))
            if self.plan:
                self.plan.pop(0)
            self.accesses.append(kind)
            if kind == "pidfile?" and self.o.jpc == "spawned" and not os.path.exists(str(self.o.pidf)):
                self.sawempty = True
            if kind == "pidread":      # (os.path, not pathlib: the methods of Path are the ones being intercepted)
                try:
                    self.sawempty = self.sawempty or os.path.getsize(str(self.o.pidf)) == 0
                except OSError:
                    pass
            if kind == "waited":
                # the wait returns once the orphan has left: whatever it still had to do happens before
                for s in [x for x in self.plan if x is not None]:
                    self.o.step(s)
                self.plan = [x for x in self.plan if x is None]
                self.o.finish()

    def flush(self):
        with self.lock:
            for s in self.plan:
                if s is not None:
                    self.o.step(s)
            self.plan = []
            self.o.finish()

    def install(self):
        import pathlib

        import psutil
        from experimaestro.scheduler.base import Scheduler

        g = self
        tl = threading.local()
        watched = {str(self.o.done): "done?", str(self.o.pidf): "pidfile?"}
        saved = {}

        def wrap_path(name, kinds):
            orig = getattr(pathlib.Path, name)
            saved[(pathlib.Path, name)] = orig

            def f(self, *a, **kw):
                k = kinds.get(str(self))
                if k and not getattr(tl, "depth", 0):
                    g.before(k)
                tl.depth = getattr(tl, "depth", 0) + 1
                try:
                    return orig(self, *a, **kw)
                finally:
                    tl.depth -= 1

            setattr(pathlib.Path, name, f)

        wrap_path("exists", watched)
        wrap_path("is_file", watched)
        wrap_path("read_text", {str(self.o.pidf): "pidread"})

        def wrap_ps(name, kind):
            orig = getattr(psutil.Process, name)
            saved[(psutil.Process, name)] = orig

            def f(self, *a, **kw):
                pid = a[0] if name == "__init__" and a else kw.get("pid") if name == "__init__" else self.pid
                if pid == g.o.pid and not getattr(tl, "depth", 0):
                    g.before(kind)
                tl.depth = getattr(tl, "depth", 0) + 1      # (is_running() opens the process again: one access, not two)
                try:
                    return orig(self, *a, **kw)
                finally:
                    tl.depth -= 1

            setattr(psutil.Process, name, f)

        wrap_ps("__init__", "procopen")
        wrap_ps("is_running", "alive?")
        wrap_ps("wait", "waited")

        o_submit, o_start = Scheduler.aio_submit, Scheduler.aio_start
        saved[(Scheduler, "aio_submit")] = o_submit
        saved[(Scheduler, "aio_start")] = o_start

        async def aio_submit(self, job):
            g.active = True
            try:
                return await o_submit(self, job)
            except BaseException as e:
                g.crash = repr(e)[:200]
                raise
            finally:
                g.active = False
                g.flush()

        async def aio_start(self, job):
            g.active = False
            g.at_start = {"jpc": g.o.jpc, "done": os.path.exists(g.o.done), "sawempty": g.sawempty}
            g.flush()
            return await o_start(self, job)

        Scheduler.aio_submit, Scheduler.aio_start = aio_submit, aio_start
        self.saved = saved

    def remove(self):
        for (cls, name), f in self.saved.items():
            setattr(cls, name, f)


def one(case):
    """case = {"out", "start", "plan"}; returns the observation"""
    import logging
    import warnings

    warnings.filterwarnings("ignore")
    logging.disable(logging.CRITICAL)
    h = ws.Harness(())
    o = None
    obs = {"case": case}
    try:
        h.run("x", ["1"], "ok")                       # the first run (its job is made an orphan below)
        o = Orphan(h, "1", case["out"], case["start"], case.get("stopped", False))
        starts = []
        conn = h.launcher.connector
        pb = conn.processbuilder

        def processbuilder():
            b = pb()
            st = b.start

            def start(task_mode=False):
                starts.append(1)
                return st(task_mode)

            b.start = start
            return b

        conn.processbuilder = processbuilder
        g = Gate(o, case["plan"])
        g.install()
        res = {}

        def on_alarm(signum, frame):
            raise Hang()

        def abandon(xp):
            from experimaestro.scheduler import base as sbase

            for f in (lambda: xp.central.loop.call_soon_threadsafe(xp.central.loop.stop), lambda: xp.taskOutputsWorker.queue.put(None),
                      lambda: sbase.SIGNAL_HANDLER.remove(xp), lambda: setattr(sbase.experiment, "CURRENT", xp.old_experiment),
                      lambda: xp.workspace.__exit__(None, None, None), lambda: xp.xplock and xp.xplock.__exit__(None, None, None)):
                try:
                    f()
                except Exception:
                    pass

        def body():
            from experimaestro import experiment
            from experimaestro.scheduler import base as sbase

            try:
                xp = experiment(h.wd, "x", launcher=h.launcher, port=-1)
                xp.__enter__()
            except Hang:
                res["hang"] = True
                return
            try:
                t = h.W(n=1).tag("n", "1")
                t.submit()
                res["state"] = t.__xpm__.job.wait().name
                signal.alarm(0)
            except Hang:
                res["hang"] = True
                g.flush()
                abandon(xp)
                return
            except BaseException as e:  # noqa
                res["exc"] = repr(e)[:300]
            central = xp.central
            try:
                signal.alarm(30)
                xp.__exit__(None, None, None)
            except sbase.FailedExperiment:
                pass
            except Hang:
                res["hang"] = True
                abandon(xp)
            finally:
                signal.alarm(0)
                from .ws import reap_central

                reap_central(central)   # (the loop thread __exit__ leaves parked: thousands of replays per worker process)

        old = signal.signal(signal.SIGALRM, on_alarm)
        signal.alarm(60)
        try:
            body()                  # (an experiment can only be entered from the main thread)
        finally:
            signal.alarm(0)
            signal.signal(signal.SIGALRM, old)
        obs["hang"] = bool(res.get("hang"))
        g.remove()
        obs.update(state=res.get("state"), exc=res.get("exc"), launched=len(starts), accesses=g.accesses, at_start=g.at_start,
                   crash=g.crash, done_at_end=o.done.exists())
    finally:
        if o:
            o.close()
        h.close()
    return obs


def plan_of(hist):
    """behaviour of the specification -> plan (J steps, None for each access of the scheduler)"""
    return [s if s[0] in "JL" else None for s in hist[1:]]


def labels_of(hist):
    return [s for s in hist[1:] if s[0] not in "JL"]


def judge(obs, want=None):
    """-> list of (clause, text): the invariants of XpmAdopt on the real observables"""
    c = obs["case"]
    bad = []
    what = (f"orphan ending '{c['out']}' ({('suspended' if c.get('stopped') else 'still running') if c['start'] == 'run' else 'being launched by another scheduler' if c['start'] == 'spawned' else 'already ended'} "
            f"when the experiment is run again), its steps placed {describe(c['plan'])}")
    if obs.get("hang"):
        bad.append(("hang", f"{what}: the experiment never ends"))
    if obs.get("crash") or obs.get("exc"):
        bad.append(("NoCrash", f"{what}: the submission raises {obs.get('crash') or obs.get('exc')}"))
    if obs["launched"] and obs["at_start"]:
        if obs["at_start"]["done"]:
            bad.append(("NoRelaunchOfSuccess", f"{what}: the job is launched again although its success marker was there"))
        if obs["at_start"]["jpc"] == "run" and not obs["at_start"].get("sawempty"):
            bad.append(("NoRelaunchOfRunning", f"{what}: the job is launched again while its process was running its body"))
    if not obs["launched"] and not bad:
        if obs["state"] == "DONE" and c["out"] != "ok":
            bad.append(("TruthfulDone", f"{what}: reported DONE without launch although the job did not succeed"))
        if obs["state"] == "ERROR" and c["out"] == "ok":
            bad.append(("TruthfulError", f"{what}: reported ERROR although the adopted job succeeded"))
    return bad


def describe(plan):
    out, k = [], 0
    for s in plan:
        if s is None:
            k += 1
        else:
            out.append(f"{s} before access {k + 1}")
    return ", ".join(out) or "after the decision"


def decision_of(obs):
    if obs.get("crash") or obs.get("exc"):
        return "crash"
    if obs["launched"]:
        return "launch"
    return {"DONE": "done", "ERROR": "error"}.get(obs["state"], str(obs["state"]))


def placements(out, n):
    """every placement of the orphan's steps over n accesses (position n = after the last access)"""
    steps = JSTEPS[out]
    for pos in itertools.combinations_with_replacement(range(n + 1), len(steps)):
        plan = []
        k = 0
        for i in range(n + 1):
            while k < len(steps) and pos[k] == i:
                plan.append(steps[k])
                k += 1
            if i < n:
                plan.append(None)
        yield plan


if __name__ == "__main__":
    sys.path[:0] = [os.environ.get("XV_REPO_SRC", "/repo/src"), "/verif"]
    case = {"out": sys.argv[1], "start": sys.argv[2], "plan": json.loads(sys.argv[3]) if len(sys.argv) > 3 else []}
    ob = one(case)
    print(json.dumps(ob, indent=1))
    print(judge(ob), decision_of(ob))
