"""Stand-in for a job process: takes the job's run lock (as TaskRunner does), says it is ready, runs until the file
<base>.end exists, removes its pid file, releases the lock"""
import os
import sys
import time

import fasteners

base = sys.argv[1]
lock = fasteners.InterProcessLock(base + ".lock")
lock.acquire()
open(base + ".ready", "w").close()
while not os.path.exists(base + ".end"):
    time.sleep(0.005)
if os.path.exists(base + ".pid"):
    os.unlink(base + ".pid")
lock.release()
