"""Runs a generated job script with a deterministic fault: the process sends itself a signal when the
k-th line event of the watched files (experimaestro/run.py and the task module) is about to execute.

usage: job_wrapper.py <script> <signal name or NONE> <k>
"""
import os
import runpy
import signal
import sys

script, signame, k = sys.argv[1], sys.argv[2], int(sys.argv[3])
# a wrapper whose harness was killed (check interrupted from outside) must not spin for ever: no history lasts that long
signal.alarm(1800)
WATCHED = ("experimaestro/run.py", "xvschema/jobdir.py")
count = 0
fired = False
countfile = os.environ.get("XV_COUNTFILE")


def tracer(frame, event, arg):
    fn = frame.f_code.co_filename
    if not fn.endswith(WATCHED):
        return None
    return local


hcount = 0


def local(frame, event, arg):
    global count, fired, hcount
    if event == "line" and signame == "PAUSEH":
        # preemption inside the signal handler: the k-th statement executed from the entry of handle_error on
        if hcount or frame.f_code.co_name == "handle_error":
            hcount += 1
            if hcount == k and not fired:
                fired = True
                import json
                import time

                log = os.environ.get("XV_LOG")
                me = os.environ.get("XV_PROC", "?")

                def say(e):
                    fd = os.open(log, os.O_WRONLY | os.O_APPEND | os.O_CREAT, 0o644)
                    os.write(fd, (json.dumps({"e": e, "p": me, "k": k, "where": "handler"}) + "\n").encode())
                    os.close(fd)

                say("paused")
                resume = os.environ.get("XV_RESUME")
                t0 = time.time()
                while not os.path.exists(resume) and time.time() - t0 < 120:
                    time.sleep(0.005)
                say("resumed")
        return local
    if event == "line":
        count += 1
        if signame == "PAUSE" and not fired and count == k:
            # preemption: the process stops here until the harness lets it go on
            fired = True
            import json
            import time

            log = os.environ.get("XV_LOG")
            me = os.environ.get("XV_PROC", "?")

            def say(e):
                fd = os.open(log, os.O_WRONLY | os.O_APPEND | os.O_CREAT, 0o644)
                os.write(fd, (json.dumps({"e": e, "p": me, "k": k}) + "\n").encode())
                os.close(fd)

            say("paused")
            resume = os.environ.get("XV_RESUME")
            t0 = time.time()
            while not os.path.exists(resume) and time.time() - t0 < 120:
                time.sleep(0.005)
            say("resumed")
        elif signame not in ("NONE", "PAUSE") and not fired and count == k:
            fired = True
            log = os.environ.get("XV_LOG")
            if log:
                import json

                fd = os.open(log, os.O_WRONLY | os.O_APPEND | os.O_CREAT, 0o644)
                os.write(fd, (json.dumps({"e": "inject", "p": os.environ.get("XV_PROC", "?"), "sig": signame, "k": k}) + "\n").encode())
                os.close(fd)
            os.kill(os.getpid(), getattr(signal, "SIG" + signame))
    return local


def report():
    if countfile:
        try:
            with open(countfile, "w") as fp:
                fp.write(str(count))
        except Exception:
            pass


import atexit

atexit.register(report)
sys.argv = [script]
sys.settrace(tracer)
runpy.run_path(script, run_name="__main__")
