"""A mini scheduler process around the real file-based CounterToken (E2 for XpmTokenFS).

It owns one CounterToken instance (real ipc lock, real watchdog observer, real reclaim threads) and executes the
commands the harness sends on stdin (one JSON object per line), answering on stdout.  Jobs are stand-ins
(procs/fake_job.py) that hold the job's run lock like a TaskRunner does."""
import json
import os
import signal
import subprocess
import sys
import threading
import time
from pathlib import Path

tokdir, total, me, jobsroot = Path(sys.argv[1]), int(sys.argv[2]), sys.argv[3], Path(sys.argv[4])

import logging  # noqa: E402
import warnings  # noqa: E402

warnings.filterwarnings("ignore")
logging.disable(logging.CRITICAL)

from experimaestro.locking import LockError  # noqa: E402
from experimaestro.tokens import CounterToken  # noqa: E402
from experimaestro.utils import verif as _verif  # noqa: E402


class Target:
    """What the token code needs from a job"""

    def __init__(self, job):
        self.identifier = job
        self.basepath = jobsroot / job / job

    def dependencychanged(self, dep, old, new):
        _verif.emit("tok.dep.changed", job=self.identifier, old=old.name, new=new.name, proc=me)


class InlineLoop:
    def call_soon_threadsafe(self, fn, *args):
        fn(*args)


def reply(**kw):
    sys.stdout.write(json.dumps(kw) + "\n")
    sys.stdout.flush()


try:
    tok = CounterToken("tok", tokdir, total)
    reply(ok=True, started=me, available=tok.available)
except Exception as e:
    _verif.emit("tok.init.error", proc=me, error=type(e).__name__)
    reply(ok=False, error=repr(e)[:200])
    sys.exit(3)

import fasteners  # noqa: E402

deps, locks, jobs, joblocks = {}, {}, {}, {}
for line in sys.stdin:
    cmd = json.loads(line)
    op, j = cmd["op"], cmd.get("job")
    try:
        if op == "submit":
            if j in deps:       # submitted again: the dependency of the finished submission is forgotten
                with tok.dependents as ds:
                    ds.discard(deps[j])
            d = tok.dependency(cmd["count"])
            d.target = Target(j)
            d.loop = InlineLoop()
            # (announced before it is done: here a notification is handled by the thread that gives it -- InlineLoop -- so the observer
            #  thread can re-check the dependency between the registration and an event logged after it; in the scheduler both
            #  are inside one callback of the loop thread)
            _verif.emit("sched.dep.add", job=j, origin="CounterToken", proc=me)
            tok.dependents.add(d)
            deps[j] = d
            d.check()
            _verif.emit("sched.dep.check", job=j, origin="CounterToken", status=d.currentstatus.name, proc=me)
            reply(ok=True, status=d.currentstatus.name)
        elif op == "acquire":
            # as aio_start: the job's run lock is held from before the tokens are taken until the pid file exists
            (jobsroot / j).mkdir(parents=True, exist_ok=True)
            joblock = fasteners.InterProcessLock(str(jobsroot / j / (j + ".lock")))
            joblock.acquire()
            lock = deps[j].lock()
            try:
                lock.acquire()
                locks[j] = lock
                joblocks[j] = joblock
                reply(ok=True, acquired=True)
            except LockError:
                deps[j].check()
                joblock.release()
                reply(ok=True, acquired=False)
            except Exception:
                joblock.release()
                raise
        elif op == "release":
            if j in joblocks:  # the start is aborted: the job lock is given back, then the tokens
                _verif.emit("h.abort", job=j, proc=me)
                joblocks.pop(j).release()
                if cmd.get("gap"):      # (the threads of other schedulers that wait for the job lock get it now)
                    time.sleep(cmd["gap"])
            locks.pop(j).release()
            reply(ok=True)
        elif op == "startjob":
            d = jobsroot / j
            d.mkdir(parents=True, exist_ok=True)
            p = subprocess.Popen([sys.executable, str(Path(__file__).parent / "fake_job.py"), str(d / j)], start_new_session=True)
            (d / (j + ".pid")).write_text(json.dumps({"type": "local", "pid": p.pid}))
            joblocks.pop(j).release()
            while not (d / (j + ".ready")).exists():
                time.sleep(0.005)
            jobs[j] = p
            reply(ok=True, pid=p.pid)
        elif op == "reap":
            if j in jobs:
                try:
                    jobs[j].wait(timeout=5)
                except Exception:
                    pass
            reply(ok=True)
        elif op == "status":
            reply(ok=True, available=tok.available, cache=sorted(tok.cache), status={k: d.currentstatus.name for k, d in deps.items()})
        elif op == "check":
            deps[j].check()
            reply(ok=True, status=deps[j].currentstatus.name)
        elif op == "kill":
            os.kill(os.getpid(), signal.SIGKILL)
        elif op == "quit":
            reply(ok=True)
            break
        else:
            reply(ok=False, error="unknown op")
    except Exception as e:
        reply(ok=False, error=repr(e)[:300], exc=type(e).__name__)
os._exit(0)
