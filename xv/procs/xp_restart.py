"""A real experiment process (real scheduler, real launcher, real job processes) that can be killed at a chosen point.
usage: xp_restart.py <workdir> <gatedir> <bodylog> <k> <countfile>
The process sends itself SIGKILL when the k-th line (counted over all threads) of the launch path -- scheduler/base.py,
commandline.py, scriptbuilder.py, connectors/local.py -- is about to execute (k = 0: never)."""
import json
import logging
import os
import signal
import sys
import threading
import warnings
from pathlib import Path

warnings.filterwarnings("ignore")
logging.disable(logging.CRITICAL)

workdir, gatedir, bodylog, k, countfile = Path(sys.argv[1]), sys.argv[2], sys.argv[3], int(sys.argv[4]), sys.argv[5]
WATCHED = ("experimaestro/scheduler/base.py", "experimaestro/commandline.py", "experimaestro/scriptbuilder.py", "experimaestro/connectors/local.py")
count = 0
armed = False
lock = threading.Lock()


def local(frame, event, arg):
    global count
    if event == "line" and armed:
        with lock:
            count += 1
            if count == k:
                os.kill(os.getpid(), signal.SIGKILL)
    return local


def tracer(frame, event, arg):
    if not frame.f_code.co_filename.endswith(WATCHED):
        return None
    return local


from experimaestro import experiment  # noqa: E402
from xvschema.jobdir import Body2  # noqa: E402

if k != 0:      # k = 0: plain run, no tracing at all (k = -1: count the statements only)
    threading.settrace(tracer)
    sys.settrace(tracer)
states = None
try:
    with experiment(workdir, "restart", port=-1) as xp:
        xp.workspace.launcher.setenv("PYTHONPATH", os.environ["PYTHONPATH"])
        armed = True      # (the faults are placed between the first submission and the end of the experiment)
        # XV_FAILFIRST: in this run the first job is configured to fail (a Meta parameter: same identifier, same directory)
        a = Body2(x=1, log=bodylog, gatedir=gatedir, fail=os.environ.get("XV_FAILFIRST") == "1")
        if os.environ.get("XV_TAG"):
            a.tag("attempt", os.environ["XV_TAG"])
        aout = a.submit()
        b = Body2(x=2, log=bodylog, gatedir=gatedir, up=aout)
        b.submit()
        c = Body2(x=3, log=bodylog, gatedir=gatedir)
        c.submit()
        tasks = [a, b, c]
        states = [t.__xpm__.job.wait().name for t in tasks]
        armed = False
    rc = 0
except Exception as e:
    armed = False
    states = states or ["EXC:" + repr(e)[:100]]
    rc = 3
sys.settrace(None)
threading.settrace(None)
Path(countfile).write_text(json.dumps({"count": count, "states": states}))
print("STATES" + json.dumps(states))
sys.exit(rc)
