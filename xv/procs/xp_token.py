"""A real experiment process: real scheduler, real file token of the workspace connector, real job processes
(xvschema.jobdir.Body, gated).  usage: xp_token.py <workdir> <xpname> <total> <jobs-json> <gatedir>
jobs-json: [[name, n, count], ...]"""
import json
import logging
import os
import sys
import warnings
from pathlib import Path

warnings.filterwarnings("ignore")
logging.disable(logging.CRITICAL)

from experimaestro import experiment  # noqa: E402
from experimaestro.utils import verif as _verif  # noqa: E402
from xvschema.jobdir import Body  # noqa: E402

workdir, name, total, jobs, gatedir = Path(sys.argv[1]), sys.argv[2], int(sys.argv[3]), json.loads(sys.argv[4]), sys.argv[5]
log = os.environ["XPM_VERIF_TRACE"]
with experiment(workdir, name, port=-1) as xp:
    xp.workspace.launcher.setenv("PYTHONPATH", os.environ["PYTHONPATH"])
    token = xp.workspace.connector.createtoken("tok", total)
    _verif.emit("h.start", proc=name)
    tasks = []
    for jname, n, count in jobs:
        t = Body(x=n, log=log, gatedir=gatedir)
        t.add_dependencies(token.dependency(count))
        _verif.emit("h.submit", job=jname, proc=name)
        t.submit()
        _verif.emit("h.ident", job=jname, ident=t.__xpm__.job.identifier, proc=name)
        tasks.append(t)
    states = [t.__xpm__.job.wait().name for t in tasks]
    _verif.emit("h.states", proc=name, states=states)
