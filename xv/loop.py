"""Deterministic event loop for the E1 engine

One ``step()`` runs exactly one pending handle, in FIFO order (as asyncio does).
Tasks and futures are the pure-Python implementations, so that pending handles
can be classified by looking at their callback.
"""
import asyncio
import asyncio.events
import asyncio.futures
import asyncio.tasks
import collections
import contextvars

PyTask = asyncio.tasks._PyTask
PyFuture = asyncio.futures._PyFuture


class DetLoop(asyncio.AbstractEventLoop):
    def __init__(self):
        self._ready = collections.deque()
        self._closed = False
        self._stopped = False
        self.exceptions = []
        self.tasks = []  # every task ever created (kept referenced)
        self._time = 0.0

    # --- scheduling
    def call_soon(self, callback, *args, context=None):
        h = asyncio.Handle(callback, args, self, context)
        self._ready.append(h)
        return h

    call_soon_threadsafe = call_soon

    def call_later(self, delay, callback, *args, context=None):
        raise NotImplementedError("timers are not used by the scheduler")

    def call_at(self, when, callback, *args, context=None):
        raise NotImplementedError("timers are not used by the scheduler")

    def time(self):
        return self._time

    def create_future(self):
        return PyFuture(loop=self)

    def create_task(self, coro, *, name=None, context=None):
        if context is None:
            t = PyTask(coro, loop=self, name=name)
        else:
            t = PyTask(coro, loop=self, name=name, context=context)
        self.tasks.append(t)
        return t

    # --- state
    def get_debug(self):
        return False

    def is_running(self):
        return False

    def is_closed(self):
        return self._closed

    def stop(self):
        self._stopped = True

    def close(self):
        self._closed = True

    def call_exception_handler(self, context):
        self.exceptions.append(context)

    def default_exception_handler(self, context):
        self.exceptions.append(context)

    # --- stepping
    def pending(self):
        return [h for h in self._ready if not h._cancelled]

    def step(self):
        """Runs the next (non cancelled) handle"""
        while self._ready:
            h = self._ready.popleft()
            if h._cancelled:
                continue
            asyncio.events._set_running_loop(self)
            try:
                h._run()
            finally:
                asyncio.events._set_running_loop(None)
            return h
        return None

    def peek(self):
        for h in self._ready:
            if not h._cancelled:
                return h
        return None


def handle_info(h):
    """Returns (callback, bound-self) for a handle"""
    cb = h._callback
    return cb, getattr(cb, "__self__", None)
