"""C16 and the command half of C19, decided with XpmWorkspace.tla"""
import os as _os

REPO_SRC = _os.environ.get("XV_REPO_SRC", "/repo/src")
import json
import os
import subprocess
import sys
import tempfile
import time
from concurrent.futures import ProcessPoolExecutor
from pathlib import Path

from . import tlc
from .common import Report, seed

C16_FIELDS = ("idx", "bak", "bakE")


def _w_init():
    import logging
    import warnings

    warnings.filterwarnings("ignore")
    logging.disable(logging.CRITICAL)
    sys.stderr = open(os.devnull, "w")


def _w_replay(beh):
    from . import ws

    try:
        return ws.replay(beh)
    except Exception as e:
        if ws.resource_exhausted(e):
            # the harness process ran out of a resource: nothing is known about the code
            return {"step": -1, "action": {}, "what": f"exception {e!r}"[:300], "machinery": True}
        return {"step": -1, "action": {}, "what": f"exception {e!r}"[:300]}


def behaviours(rep, prop, tier, sd):
    mc = tlc.tlc("XpmWorkspace.tla", "MC_Workspace.cfg" if tier == "thorough" else "MC_Workspace_quick.cfg", timeout=2400)
    rep.add_tlc("MC_Workspace", mc, "all histories of runs (ok / exception / kill), jobs clean, orphans over 3 jobs, 2 experiments")
    if mc.violation:
        rep.violation(f"{prop}/model/{mc.violation[1]}", f"TLC: {mc.violation}", {"tlc_tail": mc.out[-2000:]})
    elif mc.error:
        rep.machinery_failure("TLC failed on MC_Workspace: " + str(mc.error))
    from . import ws

    num = (700 if tier == "quick" else 12000) if prop != "C05" else (300 if tier == "quick" else 4000)
    behs = []
    # uniformly random histories, and the focused family of the property (runs + orphans for C16, runs + cleaning for C19)
    for cfgname, share in (("MC_Workspace_sim.cfg", 0.5), ("MC_Workspace_simruns.cfg" if prop in ("C16", "C05") else "MC_Workspace_simclean.cfg", 0.5)):
        res = tlc.tlc("XpmWorkspace.tla", cfgname, workers=1, timeout=1800,
                      extra=["-simulate", f"num={int(num * share)}", "-depth", "7", "-seed", str(sd + 3)])
        behs += ws.parse_behaviours(res.out)
    if not behs:
        rep.machinery_failure("TLC exported no workspace behaviour: " + str(res.error))
        return
    with ProcessPoolExecutor(max_workers=16, initializer=_w_init) as ex:
        out = list(ex.map(_w_replay, behs, chunksize=8))
    kinds = set()
    for b, d in zip(behs, out):
        rep.cov["evaluations"] += 1
        if d is None:
            rep.cov["traces_validated_against_impl"] += 1
            kinds.add(tuple((e["a"], e.get("how"), e.get("perform"), e.get("clean")) for e in b))
            continue
        act = d["action"].get("a")
        what = d["what"]
        if d.get("machinery"):
            rep.machinery_failure(f"workspace replay ran out of a resource: {what}")
            continue
        if prop == "C05":
            # a job whose success marker exists is never run again by a later experiment: the markers of the job directories
            mine = act == "run" and "'dirs'" in what
        elif prop == "C16":
            mine = act == "run" or (act == "orphans" and "reports" in what) or any(f"'{f}'" in what for f in C16_FIELDS)
        else:
            mine = act in ("clean", "orphans", "running")
        if mine:
            rep.violation(f"{prop}/replay/{act}/{what.split(':')[0][:50]}", f"history {[(e['a'], e.get('xp'), e.get('how')) for e in b]}: step {d['step']} "
                          f"{d['action']}: {what}", {"behaviour": b, "ws": True})
    rep.cov["distinct_nontrivial"] += len(kinds)
    rep.sample({"history": [{k: v for k, v in e.items() if k != "st"} for e in behs[0]]})


LOCK_PROG = r'''
import sys, time, logging, warnings
warnings.filterwarnings("ignore"); logging.disable(logging.CRITICAL)
from pathlib import Path
from experimaestro import experiment
wd, name, marker, hold = sys.argv[1], sys.argv[2], Path(sys.argv[3]), Path(sys.argv[4])
Path(str(marker) + ".try").write_text("trying")
with experiment(wd, name, port=-1) as xp:
    if len(sys.argv) > 5:
        # the first process runs a one-job plan to its end
        from xvschema.wstask import W
        xp.workspace.launcher.setenv("PYTHONPATH", sys.argv[5])
        t = W(n=1); t.submit(); t.__xpm__.job.wait()
        Path(str(marker) + ".job").write_text(str(t.__xpm__.job.relpath))
    marker.write_text("in")
    while not hold.exists():
        time.sleep(0.01)
Path(str(marker) + ".out").write_text("out")
'''


def lock_exclusion(rep, n):
    """Two processes entering the same experiment of the same workspace: the second one is inside only after the
    first one has left"""
    root = Path(tempfile.mkdtemp(prefix="xvlock-", dir=str(tlc.workdir("lock"))))
    env = dict(os.environ, PYTHONPATH=REPO_SRC + ":/verif")
    env.pop("XPM_VERIF", None)
    try:
        for i in range(n):
            rep.cov["evaluations"] += 1
            wd = root / f"ws{i}"
            m1, m2, h1, h2 = (root / f"{i}.{x}" for x in ("m1", "m2", "h1", "h2"))
            p1 = subprocess.Popen(["/venv/bin/python", "-W", "ignore", "-c", LOCK_PROG, str(wd), "x", str(m1), str(h1), env["PYTHONPATH"]], env=env,
                                  stdout=subprocess.DEVNULL, stderr=subprocess.DEVNULL)
            t0 = time.time()
            while not m1.exists() and time.time() - t0 < 60:
                time.sleep(0.02)
            if not m1.exists():
                rep.machinery_failure("lock test: the first process never entered")
                p1.kill()
                continue
            p2 = subprocess.Popen(["/venv/bin/python", "-W", "ignore", "-c", LOCK_PROG, str(wd), "x", str(m2), str(h2)], env=env,
                                  stdout=subprocess.DEVNULL, stderr=subprocess.DEVNULL)
            t0 = time.time()
            while not Path(str(m2) + ".try").exists() and time.time() - t0 < 60:
                time.sleep(0.02)
            t0 = time.time()
            while not m2.exists() and time.time() - t0 < 2.0:  # it is now trying to take the experiment lock
                time.sleep(0.02)
            both = m2.exists() and not Path(str(m1) + ".out").exists()
            if both:
                rep.violation("C16/lock/two-holders", "two processes are inside the same experiment of the same workspace at once", {"lock": True})
            h1.write_text("go")
            # the first process leaves, the second one enters and stays inside: the plan the first one completed is still
            # on record (index, or backup index now that a new run has begun)
            t0 = time.time()
            while not m2.exists() and time.time() - t0 < 60:
                time.sleep(0.02)
            jobf = Path(str(m1) + ".job")
            if m2.exists() and jobf.exists() and not both:
                rel = jobf.read_text()
                if not any((wd / "xp" / "x" / d / rel).is_symlink() for d in ("jobs", "jobs.bak")):
                    rep.violation("C16/lock/plan-lost-by-refused-entrant", "a process waiting to enter a running experiment has destroyed the record of "
                                  "the plan the running process then completed: its job is linked neither by the index nor by the backup index", {"lock": True})
            # a third process arrives while the second one (which waited on the lock file the first one used) is inside
            m3, h3 = root / f"{i}.m3", root / f"{i}.h3"
            p3 = None
            if m2.exists() and not both:
                p3 = subprocess.Popen(["/venv/bin/python", "-W", "ignore", "-c", LOCK_PROG, str(wd), "x", str(m3), str(h3)], env=env,
                                      stdout=subprocess.DEVNULL, stderr=subprocess.DEVNULL)
                t0 = time.time()
                while not Path(str(m3) + ".try").exists() and time.time() - t0 < 60:
                    time.sleep(0.02)
                t0 = time.time()
                while not m3.exists() and time.time() - t0 < 2.0:
                    time.sleep(0.02)
                if m3.exists() and not Path(str(m2) + ".out").exists():
                    rep.violation("C16/lock/two-holders", "two processes are inside the same experiment of the same workspace at once (the one that had "
                                  "waited for the lock and one that arrived after the first holder left)", {"lock": True})
            h2.write_text("go")
            h3.write_text("go")
            if p3 is not None:
                try:
                    p3.wait(timeout=60)
                except subprocess.TimeoutExpired:
                    p3.kill()
                    rep.machinery_failure("lock test: the third process did not finish")
            for p in (p1, p2):
                try:
                    p.wait(timeout=60)
                except subprocess.TimeoutExpired:
                    p.kill()
                    rep.machinery_failure("lock test: a process did not finish")
            if not both and not m2.exists():
                rep.violation("C16/lock/never-enters", "the second process never entered after the first one left", {"lock": True})
    finally:
        import shutil

        shutil.rmtree(root.parent, ignore_errors=True)
    rep.cov["lock_races"] = n


def run_c16(tier, replay=None):
    rep = Report("C16", tier, "model_checking")
    rep.assumptions.append("job processes are simulated by the harness (instant exit, markers written); the experiment context manager, "
                           "the scheduler thread, the command line and the file system are real")
    if replay:
        payload = json.loads(open(replay).read())["payload"]
        if payload.get("lock"):
            lock_exclusion(rep, 1)
        else:
            _w_init()
            d = _w_replay(payload["behaviour"])
            print("replay:", d)
            if d:
                rep.violation("C16/replay", str(d), payload)
        return rep.finish()
    behaviours(rep, "C16", tier, seed())
    lock_exclusion(rep, 2 if tier == "quick" else 10)
    rep.cov["rule"] += (" | behaviours of XpmWorkspace generated by TLC (simulation, depth 6) replayed on a real workspace; distinct non-trivial = "
                        "distinct sequences of action kinds of the replayed behaviours")
    return rep.finish()


def run_c19(rep, tier, sd):
    behaviours(rep, "C19", tier, sd)
    orphans_race(rep, tier)


# ---------------------------------------------------------------- orphans vs a starting run (XpmOrphansRace.tla)
def _w_orphans_race(k):
    """One real `orphans --clean` during which, at the k-th step of its directory listings (call of Path.glob or item
    produced by one), a new run of the experiment starts (experiment.__enter__ moves the links to jobs.bak).
    Returns (number of steps seen, order in which index / backup index were listed, deleted job names)"""
    import pathlib

    from . import ws

    h = ws.Harness(())
    try:
        h.run("x", ["1", "2", "3"], "ok")
        from experimaestro import experiment

        state = {"n": 0, "xp": None, "order": []}
        real_glob = pathlib.Path.glob

        def tick():
            state["n"] += 1
            if state["n"] == k and state["xp"] is None:
                pathlib.Path.glob = real_glob
                try:
                    state["xp"] = experiment(h.wd, "x", launcher=h.launcher, port=-1)
                    state["xp"].__enter__()
                finally:
                    pathlib.Path.glob = glob

        def glob(self, pattern):
            inside = str(self).startswith(str(h.wd))
            if inside:
                if self.name in ("jobs", "jobs.bak") and self.parent.parent.name == "xp":
                    state["order"].append(self.name)
                tick()
            for x in real_glob(self, pattern):
                if inside:
                    tick()
                yield x
            if inside:
                tick()

        pathlib.Path.glob = glob
        try:
            r = h.orphans(True, False)
        finally:
            pathlib.Path.glob = real_glob
        err = repr(r.exception)[:200] if r.exception is not None and not isinstance(r.exception, SystemExit) else None
        deleted = sorted(n for n, (task, ident) in h.ids.items() if not (h.wd / "jobs" / task / ident).is_dir())
        if state["xp"] is not None:
            central = state["xp"].central
            try:
                raise RuntimeError("leave without dropping the backup")
            except RuntimeError:
                state["xp"].__exit__(*sys.exc_info())
            from .ws import reap_central

            reap_central(central)
        return state["n"], state["order"], deleted, err
    finally:
        h.close()


def orphans_race(rep, tier):
    for cfgname, expect in (("MC_OrphansRace_ok.cfg", True), ("MC_OrphansRace_swapped.cfg", False)):
        res = tlc.tlc("XpmOrphansRace.tla", cfgname, timeout=600)
        rep.add_tlc(cfgname[:-4], res, "index listed before the backup index" if expect else "the other order (must fail: demonstrates what the order protects)")
        if expect and res.violation:
            rep.violation(f"C19/model/{res.violation[1]}", f"TLC: {res.violation} in XpmOrphansRace", {"tlc_tail": res.out[-1500:]})
        elif expect and res.error:
            rep.machinery_failure("TLC failed on XpmOrphansRace: " + str(res.error))
        elif not expect and not res.violation:
            rep.machinery_failure("XpmOrphansRace does not distinguish the two listing orders")
    # ... and for any number of links, by proof (TLAPS): Inv is inductive and implies AllReferencedSeen
    t0 = time.time()
    proved, nobl, tail = tlc.tlaps("XpmOrphansRace_Proof.tla")
    rep.cov["tlaps"] = {"module": "XpmOrphansRace_Proof", "obligations": nobl, "all_proved": proved, "wall_s": round(time.time() - t0, 1)}
    if not proved:
        rep.machinery_failure("TLAPS does not prove XpmOrphansRace_Proof: " + tail[-300:])
    with ProcessPoolExecutor(max_workers=1, initializer=_w_init) as ex:
        n, order, deleted, err = ex.submit(_w_orphans_race, 10**9).result()
    if err or deleted:
        rep.violation("C19/orphans-race/baseline", f"orphans --clean without interference: error {err}, deleted {deleted}", {"k": None})
        return
    # conformance of the listing order with the specification (Order = <<"idx", "bak">>)
    firsts = [x for i, x in enumerate(order) if x not in order[:i]]
    if firsts != ["jobs", "jobs.bak"][: len(firsts)] or "jobs" not in order:
        rep.violation("C19/orphans-race/listing-order", f"orphans lists {order}: the specification requires the index before the backup index", {"order": order})
    ks = list(range(1, n + 2, 1 if tier == "thorough" or n < 40 else 2))
    with ProcessPoolExecutor(max_workers=16, initializer=_w_init) as ex:
        out = list(ex.map(_w_orphans_race, ks))
    for k, (_, order_k, deleted, err) in zip(ks, out):
        rep.cov["evaluations"] += 1
        if err:
            rep.violation("C19/orphans-race/exception", f"a run starting at step {k} of the listings makes orphans fail: {err}", {"k": k})
        elif deleted:
            rep.violation("C19/orphans-race/referenced-job-deleted", f"a run of the experiment starting at step {k} of the listings of `orphans --clean` "
                          f"makes it delete the jobs {deleted}, which were linked by the index or its backup all along", {"k": k})
        else:
            rep.cov["traces_validated_against_impl"] += 1
    rep.cov["orphans_race"] = {"listing_steps": n, "interleavings": len(ks), "listing_order": order}
