"""C18, C19 (filter half), C15: decision functions transcribed in XpmFunctions.tla; TLC enumerates the bounded input
domain, checks the function-level invariants and prints the expected result of every input; each becomes one
test of the implementation (B3)."""
import codecs
import json
import os
import random
import re
import sys
from pathlib import Path

from . import tlc
from .common import Report, seed

CASE = re.compile(r'^<<"(CASE|HOSTS|JOBS)", "(.*)">>$')
G = 10**9


def export(part):
    res = tlc.tlc("XpmFunctions.tla", f"XpmFunctions_{part}.cfg", workers=1, timeout=1800)
    cases, extra = [], None
    for line in res.out.splitlines():
        m = CASE.match(line.strip())
        if m:
            val = json.loads(codecs.decode(m.group(2), "unicode_escape"))
            if m.group(1) == "CASE":
                cases.append(val)
            else:
                extra = val
    return res, cases, extra


# ================================================================= C18
def build_req(e, snaps):
    """Programmatic requirement for an expression record; records a snapshot of every operand before it is used"""
    from experimaestro.launcherfinder import specs

    if e["op"] == "t":
        t = e["t"]
        if t["gpus"]:
            r = specs.cuda_gpu(mem=f"{t['gpus'][0]}G") if t["gpus"][0] else specs.cuda_gpu()
        elif t["dur"]:
            r = specs.duration(t["dur"])
        else:
            r = specs.cpu(mem=f"{t['mem']}G", cores=t["cores"]) if t["mem"] else specs.cpu(cores=t["cores"])
        return r
    if e["op"] == "and":
        a, b = build_req(e["kids"][0], snaps), build_req(e["kids"][1], snaps)
        before = (fields(a), fields(b))
        r = a & b
        snaps.append(("&", before, (fields(a), fields(b)), r is a or r is b))
        return r
    if e["op"] == "mul":
        a = build_req(e["kids"][0], snaps)
        before = fields(a)
        r = a * e["n"]
        snaps.append(("*", before, fields(a), False))
        return r
    raise ValueError(e)


def fields(r):
    return {"mem": r.cpu.memory, "cores": r.cpu.cores, "dur": r.duration, "gpus": [g.memory for g in r.cuda_gpus]}


def norm_fields(n):
    return {"mem": n["mem"] * G, "cores": n["cores"], "dur": n["dur"], "gpus": [m * G for m in n["gpus"]]}


def text_of(e, rng):
    """Textual specification of an expression (None when the grammar cannot express it)"""
    sp = lambda: " " * rng.choice([0, 0, 1, 2])  # noqa: E731
    if e["op"] == "t":
        t = e["t"]
        if t["gpus"]:
            if not t["gpus"][0]:
                return None  # a GPU without memory request has no textual form in this domain
            return f"cuda({sp()}mem{sp()}={sp()}{t['gpus'][0]}G{sp()})"
        if t["dur"]:
            # every spelling the grammar accepts: h / hours, d / days (with or without a space before the unit)
            return f"duration{sp()}={sp()}" + (rng.choice(["1h", "1 h", "1hours", "1 hours"]) if t["dur"] == 3600
                                               else rng.choice(["2d", "2 d", "2days", "2 days", "48h", "48 hours"]))
        parts = ([f"mem{sp()}={sp()}{t['mem']}G"] if t["mem"] else []) + [f"cores{sp()}={sp()}{t['cores']}"]
        return f"cpu({sp()}" + f"{sp()},{sp()}".join(parts) + f"{sp()})"
    if e["op"] == "and":
        a, b = text_of(e["kids"][0], rng), text_of(e["kids"][1], rng)
        return None if a is None or b is None else f"{a}{sp()}&{sp()}{b}"
    if e["op"] == "mul":
        k = e["kids"][0]
        if k["op"] == "t" and k["t"]["gpus"]:
            base = text_of(k, rng)
            return None if base is None else base + f"{sp()}*{sp()}{e['n']}"
        return None


def check_c18(rep, tier):
    from experimaestro.launcherfinder import specs
    from experimaestro.launcherfinder.parser import parse

    res, cases, hosts = export("match")
    rep.add_tlc("XpmFunctions_match", res, "MatchSound over every request x host")
    if res.violation:
        rep.violation(f"C18/model/{res.violation[1]}", f"TLC: {res.violation}", {"tlc_tail": res.out[-2000:]})
    if res.error or not cases or not hosts:
        rep.machinery_failure("TLC export failed for match: " + str(res.error))
        return
    hosts, host_lists = hosts["hosts"], hosts["lists"]
    rng = random.Random(seed())
    real_hosts = [
        specs.HostSpecification(
            cuda=[specs.CudaSpecification(memory=g["mem"] * G, min_memory=g["minmem"] * G) for g in h["gpus"]],
            cpu=specs.CPUSpecification(memory=h["mem"] * G, cores=h["cores"]),
            max_duration=h["maxdur"], min_gpu=h["mingpu"])
        for h in hosts
    ]
    def real_host(h):
        return specs.HostSpecification(
            cuda=[specs.CudaSpecification(memory=g["mem"] * G, min_memory=g["minmem"] * G) for g in h["gpus"]],
            cpu=specs.CPUSpecification(memory=h["mem"] * G, cores=h["cores"]), max_duration=h["maxdur"], min_gpu=h["mingpu"])

    # LauncherRegistry.find with a launchers.py whose find_launcher tries a list of hosts in order
    import tempfile
    import shutil

    from experimaestro.connectors.local import LocalConnector
    from experimaestro.launcherfinder.registry import LauncherRegistry
    from experimaestro.launchers.direct import DirectLauncher

    regdir = Path(tempfile.mkdtemp(prefix="xvreg-", dir=str(tlc.workdir("reg"))))
    (regdir / "launchers.py").write_text(
        "HOSTS = []\nMADE = {}\n"
        "def find_launcher(spec, tags):\n"
        "    for k, (host, launcher) in enumerate(HOSTS):\n"
        "        if spec.match(host) is not None:\n"
        "            MADE['last'] = (spec, k)\n"
        "            return launcher\n"
        "    return None\n")
    registry = LauncherRegistry(regdir)
    import sys as _sys

    conf = _sys.modules.get("xpm_launchers_conf") or registry.find_launcher_fn.__globals__
    G_ = registry.find_launcher_fn.__globals__
    nontrivial = 0
    for ci, c in enumerate(cases):
        payload = {"case": c}
        snaps = []
        try:
            reqs = [build_req(e, snaps) for e in c["es"]]
        except Exception as ex:
            rep.violation("C18/build/exception", f"case {ci}: building the request raised {ex!r}", payload)
            continue
        for op, before, after, alias in snaps:
            if before != after:
                rep.violation(f"C18/operand-altered/{op}", f"case {ci}: an operand of {op} was altered: {before} -> {after}", payload)
        for r, n in zip(reqs, c["norm"]):
            if fields(r) != norm_fields(n):
                rep.violation("C18/algebra", f"case {ci}: combined request is {fields(r)}, the specification says {norm_fields(n)}", payload)
        texts = [text_of(e, rng) for e in c["es"]]
        if all(t is not None for t in texts):
            text = (" " * rng.choice([0, 1]) + "|" + " " * rng.choice([0, 1])).join(texts)
            try:
                parsed = parse(text)
                got = [fields(p) for p in parsed]
                if got != [norm_fields(n) for n in c["norm"]]:
                    rep.violation("C18/text", f"case {ci}: '{text}' parses to {got}, the programmatic meaning is {[norm_fields(n) for n in c['norm']]}", payload)
                # parsing again must give the same thing (no state kept between calls)
                if [fields(p) for p in parse(text)] != got:
                    rep.violation("C18/text-unstable", f"case {ci}: parsing '{text}' twice gives different requests", payload)
            except Exception as ex:
                rep.violation("C18/text/exception", f"case {ci}: '{text}' does not parse: {ex!r}", payload)
        target = reqs[0] if len(reqs) == 1 else specs.RequirementUnion(*reqs)
        for hi, (h, want) in enumerate(zip(real_hosts, c["res"])):
            rep.cov["evaluations"] += 1
            m = target.match(h)
            if len(reqs) == 1:
                got = 1 if m is not None else 0
            else:
                got = 0 if m is None else 1 + next(i for i, r in enumerate(reqs) if r is m.requirement)
            if got != want:
                what = "matches a host that does not satisfy it" if got and not want else "differs from the specification"
                rep.violation(f"C18/match/{'unsound' if got and not want else 'other'}",
                              f"case {ci}: request {c['norm']} vs host {hosts[hi]}: match() gives {got}, expected {want} ({what})",
                              {"case": c, "host": hosts[hi]})
            if want:
                nontrivial += 1
        if len(reqs) > 1 or ci % 7 == 0:
            for li, (hl, want) in enumerate(zip(host_lists, c["find"])):
                rep.cov["evaluations"] += 1
                launchers = [DirectLauncher(LocalConnector.instance()) for _ in hl]
                G_["HOSTS"][:] = [(real_host(h), l) for h, l in zip(hl, launchers)]
                G_["MADE"].clear()
                try:
                    got_l = registry.find(*reqs)
                except Exception as ex:
                    rep.violation("C18/find/exception", f"case {ci}: LauncherRegistry.find raised {ex!r}", payload)
                    break
                if got_l is None:
                    got = [0, 0]
                else:
                    spec_used, k = G_["MADE"]["last"]
                    got = [1 + next((i for i, r in enumerate(reqs) if r is spec_used), -1), k + 1]
                    if launchers[k] is not got_l:
                        got = [-1, -1]
                if got != list(want):
                    rep.violation("C18/find/order", f"case {ci}: find() over hosts {hl} answers (alternative, host) = {got}, the specification says {list(want)} "
                                  "(alternatives are tried in the order given)", payload)
        if len(rep.cov["samples"]) < 2:
            rep.sample({"request": c["norm"], "text": texts, "matches_on_hosts": sum(1 for x in c["res"] if x)})
    shutil.rmtree(regdir.parent, ignore_errors=True)
    rep.cov["traces_validated_against_impl"] += len(cases)
    rep.cov["distinct_nontrivial"] += nontrivial
    rep.cov["exhaustive"] = True


# ================================================================= C19 (filter)
class FakeInfo:
    def __init__(self, job):
        from experimaestro.scheduler import JobState

        self.tags = {k: v for k, v in job["tags"].items() if v != "-"}
        self.state = None if job["state"] == "-" else JobState[job["state"]]
        self.path = Path("/ws/jobs") / job["name"] / "0123"
        self.scriptname = job["name"].split(".")[-1]


def atom_text(a):
    q = lambda s: "\"" + s + "\""  # noqa: E731  (the grammar has no escape character: what is between the quotes is the value)
    k = a[0]
    if k == "eq":
        return f"{a[1]} = {q(a[2])}"
    if k == "eqv":
        return f"{a[1]} = {a[2]}"
    if k == "in":
        return f"{a[1]} in [{', '.join(q(x) for x in sorted(a[2]))}]"
    if k == "notin":
        return f"{a[1]} not in [{', '.join(q(x) for x in sorted(a[2]))}]"
    if k == "re":
        return f"{a[1]} ~ {q(a[2])}"
    raise ValueError(a)


def check_filter(rep, tier):
    from experimaestro.cli.filter import createFilter

    res, cases, jobs = export("filter")
    rep.add_tlc("XpmFunctions_filter", res, "every filter x every tag/state assignment")
    if res.violation:
        rep.violation(f"C19/model/{res.violation[1]}", f"TLC: {res.violation}", {"tlc_tail": res.out[-2000:]})
    if res.error or not cases or not jobs:
        rep.machinery_failure("TLC export failed for filter: " + str(res.error))
        return
    # the regular-expression table of the specification is re-derived with Python's re
    table = {"a": {"ab"}, "^1$": {"1"}, "task": {"task.a"}, "\\d": {"1", "2"}, "task\\.a$": {"task.a"}}
    universe = {"1", "2", "ab", "DONE", "ERROR", "RUNNING", "task.a", "other.b"}
    for pat, want in table.items():
        if {v for v in universe if re.match(pat, v)} != want:
            rep.machinery_failure(f"ReTable of XpmFunctions.tla is wrong for {pat}")
    infos = [FakeInfo(j) for j in jobs]
    # a text that is not a filter of the documented grammar is refused as a whole (never cut down to a prefix that parses)
    for text in ('x = "1" and (y = "ab")', 'x != "1"', 'x = "1" y = "2"', 'x = "1" and', 'x == "1"', 'x = "1" )', 'x = "1" or y',
                 'x in ["1"] and y = "ab" extra', 'x = "1'):
        rep.cov["evaluations"] += 1
        try:
            createFilter(text)
            rep.violation("C19/filter/ill-formed-accepted", f"'{text}' is not a filter of the documented grammar but is accepted "
                          "(it would select by its well-formed prefix)", {"filter": text})
        except Exception:
            pass
    nontrivial = 0
    for ci, c in enumerate(cases):
        f = c["f"]
        text = atom_text(f[0]) + "".join(f" {op} {atom_text(a)}" for op, a in f[1:])
        payload = {"filter": text, "case": c}
        try:
            fn = createFilter(text)
        except Exception as ex:
            rep.violation(f"C19/filter/parse/{f[0][0]}", f"filter '{text}' cannot be compiled: {ex!r}"[:300], payload)
            continue
        for ji, (info, want) in enumerate(zip(infos, c["res"])):
            rep.cov["evaluations"] += 1
            try:
                got = 1 if fn(info) else 0
            except Exception as ex:
                rep.violation(f"C19/filter/eval/{f[0][0]}", f"filter '{text}' raises on {jobs[ji]}: {ex!r}"[:300], payload)
                break
            if got != want:
                ops = "+".join(sorted({a[0] for a in [f[0]] + [x[1] for x in f[1:]]}))
                rep.violation(f"C19/filter/meaning/{ops}", f"filter '{text}' on {jobs[ji]} gives {bool(got)}, its documented meaning is {bool(want)}", payload)
                break
        if 0 < sum(c["res"]) < len(c["res"]):
            nontrivial += 1
        if len(rep.cov["samples"]) < 2:
            rep.sample({"filter": text, "selected_jobs": sum(c["res"]), "of": len(c["res"])})
    rep.cov["traces_validated_against_impl"] += len(cases)
    rep.cov["distinct_nontrivial"] += nontrivial
    rep.cov["exhaustive"] = True


# ================================================================= C15
_CLASSES = {}


def annotation(t):
    from typing import Dict, List, Optional

    from xvschema import cfg as S

    c = t["c"]
    if c == "int":
        return int
    if c == "float":
        return float
    if c == "str":
        return str
    if c == "bool":
        return bool
    if c == "path":
        return Path
    if c == "enum":
        return S.Color
    if c == "cfgK":
        return S.K
    if c == "cfgK2":
        return S.K2
    inner = annotation(t["args"][0])
    return {"list": List[inner], "dict": Dict[str, inner], "opt": Optional[inner]}[c]


CHOICES = {"int": [0, 1, 2, -2], "float": [0.0, 0.5, 1.0, 2.0, -1.5, -2.0], "str": ["a", ""], "path": [Path("a"), Path(".")]}


def holder(t, checked=False):
    """A configuration class with one parameter x of the given type (checked: with a value checker that accepts every
    value of the vocabulary once it has the declared type)"""
    from experimaestro import Config, Param
    from experimaestro.checkers import Choices
    from experimaestro.core.arguments import Annotated

    key = json.dumps(t, sort_keys=True) + ("/checked" if checked else "")
    if key not in _CLASSES:
        name = f"H{len(_CLASSES)}"
        ann = Annotated[annotation(t), Choices(CHOICES[t["c"]])] if checked else Param[annotation(t)]
        ns = {"__annotations__": {"x": ann}, "__module__": "xvschema.dyn", "__qualname__": name}
        cls = type(name, (Config,), ns)
        import xvschema.dyn as dyn

        setattr(dyn, name, cls)
        _CLASSES[key] = cls
    return _CLASSES[key]


def pyvalue(v):
    from xvschema import cfg as S

    k = v["k"]
    if k == "int":
        return int(v["s"])
    if k == "float":
        return float(v["s"])
    if k == "str":
        return v["s"]
    if k == "bool":
        return v["s"] == "T"
    if k == "none":
        return None
    if k == "path":
        return Path(v["s"])
    if k == "enum":
        return S.Color[v["s"]]
    if k == "cfg":
        return {"K": S.K, "K2": S.K2, "K2Old": S.K2Old}[v["s"]](a=1)
    if k == "list":
        return [pyvalue(x) for x in v["items"]]
    if k == "dict":
        return {pyvalue(kv[0]): pyvalue(kv[1]) for kv in v["items"]}
    raise ValueError(v)


def absvalue(x):
    from enum import Enum

    from experimaestro import Config
    from xvschema import cfg as S

    def val(k, s):
        return {"k": k, "s": s, "items": []}

    if x is None:
        return val("none", "")
    if isinstance(x, bool):
        return val("bool", "T" if x else "F")
    if isinstance(x, int):
        return val("int", str(x))
    if isinstance(x, float):
        return val("float", repr(x))
    if isinstance(x, str):
        return val("str", x)
    if isinstance(x, Path):
        return val("path", str(x))
    if isinstance(x, Enum):
        return val("enum", x.name)
    if isinstance(x, Config):
        for name, cls in (("K2Old", S.K2Old), ("K2", S.K2), ("K", S.K)):
            if isinstance(x, cls):
                return val("cfg", name)
        return val("cfg", type(x).__name__)
    if isinstance(x, list):
        return {"k": "list", "s": "", "items": [absvalue(y) for y in x]}
    if isinstance(x, dict):
        return {"k": "dict", "s": "", "items": [[absvalue(k), absvalue(y)] for k, y in x.items()]}
    return val("?", repr(x))


def classify(v, t):
    """Names the kind of off-type positions of a value that should have been rejected"""
    offs = []

    def walk(v, t, top):
        c = t["c"]
        if c == "opt":
            if v["k"] != "none":
                walk(v, t["args"][0], False)
        elif c == "list":
            if v["k"] != "list":
                offs.append(f"{v['k']}-for-list")
            else:
                for x in v["items"]:
                    walk(x, t["args"][0], False)
        elif c == "dict":
            if v["k"] != "dict":
                offs.append(f"{v['k']}-for-dict")
            else:
                for k, x in v["items"]:
                    if k["k"] != "str":
                        offs.append(f"{k['k']}-key")
                    walk(x, t["args"][0], False)
        elif c in ("cfgK", "cfgK2"):
            if v["k"] == "none" and not top:
                offs.append("none-element-for-configuration")
            elif v["k"] != "cfg" or not ((c == "cfgK" and v["s"] == "K") or (c == "cfgK2" and v["s"] in ("K2", "K2Old"))):
                offs.append(f"{v['k']}:{v['s']}-for-{c}")
        else:
            offs.append(f"{v['k']}-for-{c}")

    walk(v, t, True)
    return "+".join(sorted(set(offs))) or "?"


def check_types(rep, tier):
    sys._called_from_test = True  # classes are created dynamically (not inside a function body of a user program)
    res, cases, _ = export("types")
    rep.add_tlc("XpmFunctions_types", res, "every type expression (depth <= 3) x every candidate value")
    if res.violation:
        rep.violation(f"C15/model/{res.violation[1]}", f"TLC: {res.violation}", {"tlc_tail": res.out[-2000:]})
    if res.error or not cases:
        rep.machinery_failure("TLC export failed for types: " + str(res.error))
        return
    nontrivial = 0
    for ci, c in enumerate(cases):
        rep.cov["evaluations"] += 1
        payload = {"case": c}
        # the routes by which a value reaches a parameter: attribute assignment (plain / with a checker), constructor
        # keyword, copyconfig override
        for route in ([False, True] if c["t"]["c"] in CHOICES else [False]) + ["kw", "copy"]:
            checked = route is True
            try:
                H = holder(c["t"], checked)
                v = pyvalue(c["v"])
            except Exception as ex:
                rep.machinery_failure(f"cannot build type/value of case {ci}: {ex!r}")
                continue
            try:
                if route == "kw":
                    o = H(x=v)
                elif route == "copy":
                    from experimaestro import copyconfig

                    o = copyconfig(H(), x=v)
                else:
                    o = H()
                    o.x = v
                stored = absvalue(o.__xpm__.values["x"])
                readback = absvalue(o.x)
                raised = None
            except Exception as ex:
                stored = readback = None
                raised = ex
            want = c["r"]
            tdesc = json.dumps(c["t"])[:80] + (" with a value checker" if checked else "") + {"kw": " (constructor keyword)", "copy": " (copyconfig override)"}.get(route, "")
            if want["k"] == "REJECT":
                if raised is None:
                    rep.violation(f"C15/accepts/{classify(c['v'], c['t'])}", f"case {ci}: a {c['v']} assigned to a parameter of type {tdesc} is stored as {stored} instead of being rejected", payload)
                else:
                    nontrivial += 1
            else:
                if raised is not None:
                    rep.violation(f"C15/rejects/{c['t']['c']}<-{c['v']['k']}", f"case {ci}: a {c['v']} assigned to a parameter of type {tdesc} raises {raised!r}, expected {want}", payload)
                elif stored != want or readback != want:
                    rep.violation(f"C15/stores/{c['t']['c']}<-{c['v']['k']}", f"case {ci}: a {c['v']} assigned to a parameter of type {tdesc} is stored as {stored} (reads back {readback}), expected {want}", payload)
            if len(rep.cov["samples"]) < 3 and ci % 997 == 5:
                rep.sample({"type": c["t"], "value": c["v"], "expected": want})
    rep.cov["traces_validated_against_impl"] += len(cases)
    rep.cov["distinct_nontrivial"] += nontrivial
    rep.cov["exhaustive"] = True
    loaded_values(rep)
    missing_required(rep, tier)


def loaded_values(rep):
    """A fourth route: the value comes from a saved definition (written by another version of the program, or edited).
    It is stored with the declared type, or loading raises"""
    from experimaestro.core.context import SerializationContext
    from experimaestro.core.objects import ConfigInformation
    from xvschema import cfg as S

    base = json.loads(json.dumps(S.K(a=1, f=0.5, s="x", l=[S.K2(a=1)]).__xpm__.__get_objects__([], SerializationContext())))
    for field, value, ok in (("a", "12", None), ("a", 2.5, None), ("a", 3.0, int), ("f", 2, float), ("f", "x", None), ("s", 7, None),
                             ("a", [1], None), ("b", "5", None), ("o", "none", None)):
        rep.cov["evaluations"] += 1
        defs = json.loads(json.dumps(base))
        defs[-1]["fields"][field] = value
        try:
            o = ConfigInformation.fromParameters(defs, as_instance=False)
            got = o.__xpm__.values.get(field)
        except Exception:
            continue
        want_type = {"a": int, "b": int, "o": int, "f": float, "s": str}[field]
        if type(got) is not want_type:
            rep.violation(f"C15/load/{field}<-{type(value).__name__}", f"a definition file giving {value!r} for the {want_type.__name__} parameter {field} is loaded "
                          f"and the parameter holds {got!r} ({type(got).__name__})", {"field": field, "value": value})


def missing_required(rep, tier):
    """A task with a required value missing anywhere in its parameter graph is rejected at submission, before any job is registered"""
    import logging
    import shutil
    import tempfile

    from experimaestro import experiment
    from xvschema import cfg as S

    def graphs():
        # (description, builder returning the task)
        yield "required int missing on the task parameter", lambda: S.T0(x=S.K())
        yield "missing below an optional child", lambda: S.T0(x=S.K(a=1, c=S.K()))
        yield "missing below a defaulted list", lambda: S.T0(x=S.K(a=1, l=[S.K(a=2), S.K2()]))
        yield "missing below a dict value", lambda: S.T0(x=S.K(a=1, d={"k": S.K()}))
        yield "missing below an ignored (Meta) child", lambda: S.T0(x=S.K(a=1, g=S.K()))
        yield "required Meta value missing below an optional child", lambda: S.T0(x=S.K(a=1, c=S.R()))
        yield "required Meta value missing two levels down", lambda: S.T0(x=S.G(z=S.K(a=1, c=S.R())))
        yield "required Meta value missing inside a list", lambda: S.T0(x=S.K(a=1, l=[S.K(a=2), S.R()]))
        yield "required Meta value missing inside a dict, below a list", lambda: S.T0(x=S.K(a=1, l=[S.K(a=2, d={"k": S.R()})]))
        yield "required Meta value missing inside nested lists", lambda: S.T0(x=S.N(ll=[[S.K(a=1)], [S.R()]]))
        yield "missing in a pre-task", lambda: S.T0(x=S.K(a=1)).add_pretasks(S.LW())
        yield "required parameter of the task itself", lambda: S.T()
        yield "missing in the parameter of a nested holder", lambda: S.T1(x=S.G(z=S.K2()))

        # a rejected submission leaves nothing behind: the same incomplete configuration is rejected again, in the same task
        # or in another one
        shared = S.R()

        def again(first):
            try:
                first().submit()
            except Exception:
                pass
            return S.T0(x=S.K(a=2, c=shared))

        yield "an incomplete configuration already seen by a rejected submission, in a second task", lambda: again(lambda: S.T0(x=S.K(a=1, c=shared)))
        shared2 = S.R()
        yield "an incomplete configuration already validated on its own (validate() raised)", lambda: again(lambda: type("V", (), {"submit": lambda self: shared.__xpm__.validate()})())

        def skewed(wrap):
            # saved by the version of the program in which S1 had no parameter w, loaded by the one in which it is required
            from experimaestro.core.context import SerializationContext
            from experimaestro.core.objects import ConfigInformation

            defs = json.loads(json.dumps(S.S1(a=1).__xpm__.__get_objects__([], SerializationContext())))
            for d in defs:
                d["module"] = "xvschema.cfg3"
            return wrap(ConfigInformation.fromParameters(defs, as_instance=False))

        yield "a loaded configuration whose class has gained a required parameter", lambda: skewed(lambda c: S.T0(x=c))
        yield "a loaded configuration (new required parameter) two levels down", lambda: skewed(lambda c: S.T0(x=S.K(a=1, l=[S.G(z=c)])))

    d = tempfile.mkdtemp(prefix="xvc15-", dir=str(tlc.workdir("c15")))
    try:
        for what, mk in graphs():
            rep.cov["evaluations"] += 1
            xp = experiment(d, "c15", port=-1)
            xp.__enter__()
            try:
                try:
                    t = mk()
                    t.submit()
                    accepted = True
                except Exception:
                    accepted = False
                    try:                      # ... and submitting the very same task again is refused again
                        t.submit()
                        accepted = True
                        what = what + " (second submit of the same task)"
                    except Exception:
                        pass
                registered = len(xp.scheduler.jobs)
                unfinished = xp.unfinishedJobs
            finally:
                try:
                    xp.__exit__(RuntimeError, RuntimeError("stop"), None)
                except Exception:
                    pass
            if accepted or registered or unfinished:
                rep.violation(f"C15/submit/{what}", f"{what}: submit {'accepted' if accepted else 'rejected'}; {registered} job(s) registered, "
                              f"{unfinished} unfinished", {"scenario": what})
    finally:
        shutil.rmtree(Path(d).parent, ignore_errors=True)


# ================================================================= entry points
def run(prop, tier, replay=None):
    import logging
    import warnings

    warnings.filterwarnings("ignore")
    logging.disable(logging.CRITICAL)
    rep = Report(prop, tier, "model_checking")
    rep.assumptions.append("B3: TLC enumerates the bounded input domain of a pure function transcribed in TLA+ and acts as reference "
                           "evaluator; the tables of regular-expression matches and of humanfriendly sizes (decimal G) are trusted")
    ok, out = tlc.sany("XpmFunctions.tla")
    if not ok:
        rep.machinery_failure("SANY rejects XpmFunctions.tla: " + out[-300:])
        return rep.finish()
    if prop == "C18":
        check_c18(rep, tier)
    elif prop == "C15":
        check_types(rep, tier)
    elif prop == "C19":
        check_filter(rep, tier)
        from . import checks_workspace

        checks_workspace.clean_part(rep, tier, seed())
    rep.cov["rule"] += (" | every input of the bounded domain enumerated by TLC is evaluated by the implementation and compared with the "
                        "specification's result; non-trivial = inputs whose result is not constant (matching hosts / selected jobs / rejected values)")
    return rep.finish()
