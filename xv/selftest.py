"""./check selftest -- demonstrates that the bindings bind: corrupted recordings and dropped hooks must be rejected,
and every action of the exhaustive models is exercised (no vacuity)."""
import copy
import json
import os
import sys

from . import tlc


def main():
    import logging
    import warnings

    warnings.filterwarnings("ignore")
    logging.disable(logging.CRITICAL)
    failures = []

    def expect(name, cond, detail=""):
        print(("ok   " if cond else "FAIL ") + name + (" -- " + detail if detail and not cond else ""))
        if not cond:
            failures.append(name)

    # 1. scheduler traces (E1 / XpmScheduler_Trace)
    from . import sched
    from .plans import PLANS

    res = sched.execute([(PLANS["tok1-2"], "random", 5), (PLANS["chain3-fail-b"], "random", 6)], workers=2)
    fix = sched.fixed_set()
    v, _ = sched.validate(res, fix)
    expect("scheduler: faithful traces are accepted", all(x["accepted"] for x in v))
    for field, mutate in (
        ("unfinished", lambda st: st.__setitem__("unfinished", st["unfinished"] + 1)),
        ("avail", lambda st: st["avail"] and st["avail"][0].__setitem__(1, st["avail"][0][1] + 1)),
        ("job state", lambda st: (lambda i: i.__setitem__("state", "WAITING" if i["state"] != "WAITING" else "READY"))(next(iter(st["insts"].values())))),
        ("launch counter", lambda st: next(iter(st["world"].values())).__setitem__("launches", 7)),
    ):
        bad = copy.deepcopy(res)
        k = len(bad[0]["events"]) // 2
        mutate(bad[0]["events"][k]["st"])
        vb, _ = sched.validate(bad, fix)
        expect(f"scheduler: a corrupted '{field}' is rejected at the corrupted event", not vb[0]["accepted"] and vb[0]["mismatch"]["event_index"] == k + 1
               and vb[1]["accepted"], str(vb[0].get("mismatch")))
    bad = copy.deepcopy(res)
    del bad[1]["events"][len(bad[1]["events"]) // 2]
    vb, _ = sched.validate(bad, fix)
    expect("scheduler: a dropped event is rejected", not vb[1]["accepted"])

    # a job that can never run (request above the capacity): the engine must report the hang, not swallow it
    from .sched import P
    res = sched.execute([(P({"a": {"tok": {"t": 2}}}, [["submit", "a"], ["wait"]], {"t": 1}), "random", 1)], workers=1)
    expect("scheduler: an experiment that cannot finish is reported as a hang", res[0].get("verdict", {}).get("end") == "hang", str(res[0].get("verdict")))

    # 2. job directory histories (E2-job / XpmJobDir_Trace)
    from . import e2_jobdir as e2
    from . import jobdir

    (tlc.VERIF / ".work").mkdir(exist_ok=True)
    hs = e2.run_histories([(e2.sequential("TERM", 60), {}), (e2.sequential("NONE", 0), {})])
    v, _ = jobdir.validate(hs)
    expect("job directory: faithful histories are accepted", all(x["accepted"] for x in v))
    bad = copy.deepcopy(hs)
    ex = next(e for e in bad[1]["events"] if e["e"] == "exit")
    ex["files"]["pid"] = True
    vb, _ = jobdir.validate(bad)
    expect("job directory: a pid file claimed after a normal end is rejected", not vb[1]["accepted"])
    bad = copy.deepcopy(hs)
    ex = next(e for e in bad[0]["events"] if e["e"] == "exit")
    ex["files"]["done"] = True
    vb, _ = jobdir.validate(bad)
    expect("job directory: a success marker claimed after a signal is rejected", not vb[0]["accepted"])

    # 3. token logs (E2-token / XpmTokenFS_Trace): a dropped hook
    from . import e2_token as t2
    from . import token

    r = t2.sc_contention()
    v, _ = token.validate([r])
    expect("token: a faithful log is accepted", v[0]["accepted"])
    os.environ["XPM_VERIF_DROP"] = "tok.create.write"
    try:
        r2 = t2.sc_contention()
    finally:
        del os.environ["XPM_VERIF_DROP"]
    v2, _ = token.validate([r2])
    expect("token: the log without the hook tok.create.write is rejected", not v2[0]["accepted"])
    bad = copy.deepcopy(r)
    e = next(e for e in bad["ev"] if e["e"] == "tok.acq.ok")
    e["available"] += 1
    vb, _ = token.validate([bad])
    expect("token: a corrupted count is rejected", not vb[0]["accepted"])

    # ... and the clauses evaluated at the harness' quiescent points are not vacuous: a log in which the orphan's token
    # file is never taken back must be rejected there
    r3 = t2.sc_owner_dies_running()
    v3, _ = token.validate([r3])
    bad = copy.deepcopy(r3)
    names = [x["e"] for x in bad["ev"]]
    i0, i1 = names.index("h.jobend"), names.index("h.quiescent")
    bad["ev"] = bad["ev"][: i0 + 1] + [bad["ev"][i1]]          # nothing happens between the end of the job and the quiescent point
    cut = i0 + 1
    vb, _ = token.validate([bad])
    expect("token: an orphan's token file that never comes back is rejected at the quiescent point",
           v3[0]["accepted"] and not vb[0]["accepted"] and vb[0]["reached"] == cut, f"{v3[0]} {vb[0]} cut={cut}")

    # ... the start of a process in its two steps: the count logged when the directory is watched is bound (a newcomer that
    # still believes the unit of an ended job is taken is rejected there), and a log without that event is rejected
    r4 = t2.sc_late_start_ended()
    v4, _ = token.validate([r4])
    bad = copy.deepcopy(r4)
    e = next(e for e in bad["ev"] if e["e"] == "tok.watching" and e.get("p") == "p2")
    e["available"] -= 1
    cut = bad["ev"].index(e)
    vb, _ = token.validate([bad])
    expect("token: a newcomer that counts a unit as taken once it watches the directory is rejected at that event",
           v4[0]["accepted"] and not vb[0]["accepted"] and vb[0]["reached"] == cut, f"{v4[0]} {vb[0]} cut={cut}")
    bad = copy.deepcopy(r4)
    bad["ev"] = [x for x in bad["ev"] if not (x["e"] == "tok.watching" and x.get("p") == "p2")]
    vb, _ = token.validate([bad])
    expect("token: the log without the event tok.watching is rejected (an observer that was never started handles no event)",
           not vb[0]["accepted"], f"{vb[0]}")

    # 4. configurations: one corrupted byte of a tapped identifier stream
    from . import cfgcheck, checks_config

    g = checks_config.graphs(3, 99)
    cases = [cfgcheck.observe(x, None)[0] for x in g]
    ok = checks_config.run_batch("XpmConfig_Enc.tla", "XpmConfig_Enc.cfg", cases)
    expect("configuration: faithful streams are accepted", not any(r.printed("MISMATCH") for _, r in ok))
    n = next(iter(cases[1]["streams"]))
    cases[1]["streams"][n][len(cases[1]["streams"][n]) // 2] ^= 1
    badr = checks_config.run_batch("XpmConfig_Enc.tla", "XpmConfig_Enc.cfg", cases)
    mm = [m for _, r in badr for m in r.printed("MISMATCH")]
    expect("configuration: one flipped bit of a stream is reported for that graph only", len(mm) == 1 and mm[0][1] == 2, str(mm)[:200])

    # 4b. adoption replay (XpmAdopt): with the guarded read of the pid file taken away again (as before F22) and with the
    #     second look at the success marker taken away, the replay must report it; untouched, it must not
    from . import adopt
    from experimaestro import commandline as _cl

    torn = {"out": "ok", "start": "run", "plan": [None, None, "JMark", "JUnpid", "JExit", None, None]}
    expect("adoption: the behaviour 'job ends between is_file and read_text' is accepted on the tree", not adopt.judge(adopt.one(torn)))
    orig = _cl.CommandLineJob.aio_process

    async def unguarded(self):
        import json as _json

        from experimaestro.connectors import Process

        if self._process:
            return self._process
        if self.pidpath.is_file():
            p = Process.fromDefinition(self.launcher.connector, _json.loads(self.pidpath.read_text()))
            if p is not None and await p.aio_isrunning():
                return p
        return None

    _cl.CommandLineJob.aio_process = unguarded
    try:
        bad = adopt.judge(adopt.one(torn))
    finally:
        _cl.CommandLineJob.aio_process = orig
    expect("adoption: the unguarded read is reported (exception / hang) on the same behaviour", {c for c, _ in bad} & {"NoCrash", "hang"}, str(bad)[:200])
    r = tlc.tlc("XpmAdopt.tla", "MC_Adopt.cfg", workers=1, coverage=True, timeout=600)
    cov = r.coverage()
    missing = [a for a in ("JMark", "JUnpid", "JExit", "JKilled", "SDone1", "SPidFile", "SPidRead", "SProcOpen", "SAlive", "SWait", "SDone2") if cov.get(a, (0, 0))[1] == 0]
    expect("coverage: every action of MC_Adopt is taken", not missing and r.ok, f"never taken: {missing} {r.error}")

    # 5. no vacuity: every action of the exhaustive scheduler / job-directory models is taken
    for mod, cfg, actions in (
        ("MC_Sched.tla", "MC_Sched_tok.cfg", ["AUserSubmit", "ARegister", "AUserStart", "ASubmitReturn", "ATaskStep", "ADepCheck", "ANotify", "AThreadDone",
                                              "AProcLock", "AProcExit", "WaitCall", "WaiterStep", "WaitReturn"]),
        ("MC_Sched.tla", "MC_Sched_restart.cfg", ["Restart", "DieAnywhere", "KillOp"]),
        ("MC_Sched.tla", "MC_Sched_dag.cfg", ["NewXp"]),
        ("MC_TokenFS.tla", "MC_TokenFS_retotal_quick.cfg", ["OnInfo"]),
        ("MC_JobDir.tla", "MC_JobDir_TRUE.cfg", ["Spawn", "Step", "BodyBegin", "BodyEnd", "BodyFail", "Signal", "HLock", "PidWrite"]),
    ):
        r = tlc.tlc(mod, cfg, coverage=True, timeout=1500)
        cov = r.coverage()
        missing = [a for a in actions if cov.get(a, (0, 0))[1] == 0]
        expect(f"coverage: every action of {cfg} is taken", not missing and r.ok, f"never taken: {missing} {r.error}")
    print("SELFTEST " + ("PASSED" if not failures else f"FAILED ({len(failures)})"))
    return 1 if failures else 0


if __name__ == "__main__":
    sys.exit(main())
