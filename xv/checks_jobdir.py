"""C10 (and the process half of C05): real job processes vs XpmJobDir.tla"""
import json

from . import e2_jobdir as e2
from . import jobdir, tlc
from .common import Report, seed

INV_OF = {
    "C10": {"DoneOnlyIfBodyCompleted", "LockHolderAlive", "HandledSignalInBody", "NoPidAfterOwnEnd", "NoBodyAfterDone", "TypeOK"},
    "C05": {"OneBodyAtATime", "NoBodyAfterDone"},
    "C11": {"OneBodyAtATime", "NoBodyAfterDone"},
}


def build_specs(prop, tier, nlines):
    s0 = seed()
    specs = []
    if prop == "C10":
        step = 4 if tier == "quick" else 1
        off = s0 % step
        for sig in ("KILL", "TERM", "INT"):
            for k in range(1 + off, nlines + 8, step):
                specs.append((e2.sequential(sig, k), {}))
        vstep = 13 if tier == "quick" else 2
        for variant, pre, fail in (("failing", {}, True), ("prefailed", {"failed": True}, False), ("predone", {"done": True}, False)):
            for sig in ("KILL", "TERM", "INT"):
                for k in range(1 + s0 % vstep, nlines + 8, vstep):
                    specs.append((e2.sequential(sig, k, fail=fail, relaunches=1 if tier == "quick" else 2), pre))
        specs += [(e2.sequential("NONE", 0), {}), (e2.sequential("NONE", 0, fail=True), {}),
                  (e2.sequential("NONE", 0), {"failed": True}), (e2.sequential("NONE", 0), {"done": True})]
        specs += jobdir.specs_concurrent()
        pstep = 6 if tier == "quick" else 2
        specs += [(e2.preempted(k), {}) for k in range(1 + s0 % pstep, nlines + 4, pstep)]
    else:  # C05: competing launches of the same job
        reps = 2 if tier == "quick" else 12
        for r in range(reps):
            specs += jobdir.specs_concurrent()
        specs += [(e2.sequential("NONE", 0), {}), (e2.sequential("NONE", 0), {"done": True}), (e2.sequential("NONE", 0, fail=True), {})]
        for k in range(20 + s0 % 7, nlines, 17 if tier == "quick" else 5):
            specs.append((e2.sequential("KILL", k), {}))
        # the first launch is preempted before its k-th statement while a second launch arrives
        pstep = 4 if tier == "quick" else 1
        specs += [(e2.preempted(k), {}) for k in range(1 + s0 % pstep, nlines + 4, pstep)]
        specs += [(e2.preempted(k, fail=True), {}) for k in range(2 + s0 % pstep, nlines + 4, pstep * 4)]
    return specs


def outcome(h):
    """Distinct post-mortem outcome classes (used to count distinct non-trivial cases)"""
    return tuple((e["p"], e["rc"], tuple(sorted(e["files"].items()))) for e in h["events"] if e["e"] == "exit")


def run(prop, tier, replay=None, rep=None, finish=True):
    rep = rep or Report(prop, tier, "fault_enumeration" if prop == "C10" else "model_checking")
    rep.assumptions += [
        "E2: the fault is raised from inside the job process when the k-th line of experimaestro/run.py or of the task body is "
        "about to execute (line granularity); OS semantics of fcntl locks and signal delivery are trusted",
        "statements of TaskRunner between two observable events are inferred by TLC (silent steps of XpmJobDir)",
    ]
    if replay:
        payload = json.loads(open(replay).read())["payload"]
        specs = [(payload["ops"], payload.get("pre", {}))]
    else:
        ok, out = tlc.sany("XpmJobDir_Trace.tla")
        ok2, out2 = tlc.sany("MC_JobDir.tla")
        if not (ok and ok2):
            rep.machinery_failure("SANY rejects the job directory specification: " + (out + out2)[-400:])
            return rep.finish()
        res = tlc.tlc("MC_JobDir.tla", "MC_JobDir_TRUE.cfg", timeout=1200)
        rep.add_tlc("MC_JobDir_TRUE", res, "2 launches, any signal at any statement")
        if res.violation:
            if res.violation[1] in INV_OF[prop]:
                rep.violation(f"{prop}/model/{res.violation[1]}", f"TLC: {res.violation} in MC_JobDir", {"tlc_tail": res.out[-3000:]})
        elif res.error:
            rep.machinery_failure("TLC failed on MC_JobDir: " + str(res.error))
        if tier == "thorough":
            res = tlc.tlc("MC_JobDir.tla", "MC_JobDir_3.cfg", timeout=3000)
            rep.add_tlc("MC_JobDir_3", res, "3 launches")
            if res.violation and res.violation[1] in INV_OF[prop]:
                rep.violation(f"{prop}/model/{res.violation[1]}", f"TLC: {res.violation} in MC_JobDir_3", {"tlc_tail": res.out[-3000:]})
            elif res.error:
                rep.machinery_failure("TLC failed on MC_JobDir_3: " + str(res.error))
        nlines = e2.calibrate()
        rep.cov["watched_lines_per_run"] = nlines
        specs = build_specs(prop, tier, nlines)
    try:
        hs = e2.run_histories(specs)
    except Exception as ex:  # job generation failed
        rep.machinery_failure("E2 could not run: " + repr(ex)[:500])
        return rep.finish()
    verdicts, stats = jobdir.validate(hs)
    for e in stats["errors"][:2]:
        rep.machinery_failure("TLC failed on a history batch: " + e[-500:])
    rep.cov["states"] += stats["distinct"]
    rep.cov["transitions"] += stats["generated"]
    rep.cov["tlc_runs"].append({"config": "XpmJobDir_Trace (batches)", "distinct": stats["distinct"],
                                "generated": stats["generated"], "wall_s": round(stats["wall"], 1)})
    classes = set()
    for (ops, pre), h, v in zip(specs, hs, verdicts):
        rep.cov["evaluations"] += 1
        payload = {"ops": ops, "pre": pre, "events": h["events"]}
        if h["timeout"]:
            rep.machinery_failure(f"history timed out: {ops[0]}")
            continue
        if v["accepted"]:
            rep.cov["traces_validated_against_impl"] += 1
            classes.add(outcome(h))
        else:
            r = v["reached"] or 0
            nxt = h["events"][r] if r < len(h["events"]) else None
            what = {k: nxt[k] for k in ("e", "p", "rc", "files", "lockfree") if nxt and k in nxt}
            inj = next((e for e in h["events"] if e["e"] in ("inject", "extsignal")), None)
            rep.violation(
                f"{prop}/history/{what.get('e')}/{what.get('rc')}/{json.dumps(what.get('files'), sort_keys=True)}",
                f"no behaviour of XpmJobDir explains the history after event {r}: next observed {what}; "
                f"first launch {ops[0]}, fault {inj}",
                payload,
            )
        for name in v["inv"]:
            if name in INV_OF[prop]:
                rep.violation(f"{prop}/trace/{name}", f"{name} violated on a recorded history ({ops[0]})", payload)
        if len(rep.cov["samples"]) < 3:
            rep.sample({"ops": ops[:6], "pre": pre, "events": [{k: e[k] for k in e if k != "pid"} for e in h["events"][:14]]})
    rep.cov["distinct_nontrivial"] += len(classes)
    rep.cov["rule"] += (
        " | E2 histories: each is a fresh generated job run by the real TaskRunner with one deterministic fault "
        "(signal x line k) followed by relaunches, or a scripted race of 2-3 launches; distinct non-trivial = "
        "distinct tuples of post-mortem outcomes (exit status, markers) of the accepted histories"
    )
    if replay:
        print(json.dumps(verdicts[0], indent=1))
    return rep.finish() if finish else rep
