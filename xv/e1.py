"""E1 -- deterministic in-process engine around the real scheduler

The real ``Scheduler.aio_registerJob / aio_submit / aio_start``,
``Job.dependencychanged``, ``Dependency.check``, ``Token.aio_notify``,
``ProcessCounterToken``, ``Locks``, ``CommandLineJob.aio_process / aio_run /
prepare`` and ``experiment.__enter__ / wait / __exit__`` run on a deterministic
loop owned by the calling thread.  Helper threads are virtual threads whose
completion is a schedulable event, job processes are simulated by a fake
process builder that follows the TaskRunner protocol (job lock, markers),
and the main thread's calls are schedulable as well.

One execution = one *plan* (workload + main-thread program) + one *chooser*
(sequence of scheduling decisions).  The engine records one event per step with
the full projected abstract state, for validation against XpmScheduler.tla.
"""
import asyncio
import asyncio.tasks
import json
import threading
import os
import random
import shutil
import sys
import tempfile
from pathlib import Path

os.environ["XPM_VERIF"] = "1"
os.environ.setdefault("PYTEST_CURRENT_TEST", "xv-e1")  # plain default Settings()

from experimaestro.utils import verif as _verif  # noqa: E402

assert _verif.ACTIVE, "XPM_VERIF hooks are not active"

import experimaestro.scheduler.base as sbase  # noqa: E402
from experimaestro import experiment  # noqa: E402
from experimaestro.connectors import Process, ProcessBuilder  # noqa: E402
from experimaestro.connectors.local import LocalConnector  # noqa: E402
from experimaestro.launchers.direct import DirectLauncher  # noqa: E402
from experimaestro.locking import Lock  # noqa: E402
from experimaestro.scheduler.base import JobState, FailedExperiment  # noqa: E402
from experimaestro.scheduler.dependencies import Dependency  # noqa: E402
from experimaestro.tokens import ProcessCounterToken, CounterTokenDependency  # noqa: E402

from .loop import DetLoop  # noqa: E402

GRAVEYARD = []  # objects of dead scheduler incarnations, kept referenced


class QuiescentHang(Exception):
    """The main thread is blocked and nothing can happen any more"""


class Livelock(Exception):
    """The step budget (20 times what the longest plan needs) is exhausted: the scheduler does not terminate"""


class MachineryError(Exception):
    pass


THREAD_KIND = {
    "lock (aenter)": "lockin",
    "lock (aexit)": "lockout",
    "aio_code": "procwait",
    "End of job processing": "donehandler",
}


class VThread:
    def __init__(self, engine, name, func, args, kwargs, fut, owner):
        self.engine = engine
        self.name = name
        self.func = func
        self.args = args
        self.kwargs = kwargs
        self.fut = fut
        self.owner = owner  # asyncio task
        self.inc = engine.inc
        self.job = engine.job_of_task(owner)
        kind = THREAD_KIND.get(name, name)
        if kind == "lockout" and self.job is not None and self.job._process is None:
            kind = "lockout_fail" if id(self.job) in engine.startfailed else "lockout_abort"
        if kind == "procwait" and self.job is not None and self.job._process is None:
            kind = "adoptwait"
        self.kind = kind

    def enabled(self):
        target = getattr(self.func, "__self__", None)
        if isinstance(target, VLock) and self.func.__name__ == "__enter__":
            return self.engine.lock_free(target.key)
        if isinstance(target, (VProc, AdoptedProc)) and self.func.__name__ == "wait":
            return target.exited
        return True

    def complete(self):
        try:
            result = self.func(*self.args, **self.kwargs)
        except Exception as e:  # the real helper thread dies, the future is never resolved
            self.engine.thread_errors.append((self.name, repr(e)))
            return
        self.fut.xv_kind = self.kind
        self.engine.loop.call_soon_threadsafe(self.fut.set_result, result)


class VLock(Lock):
    """Engine-managed file lock (one holder per path)"""

    def __init__(self, engine, path, max_delay):
        super().__init__()
        self.engine = engine
        self.key = str(path)
        self.max_delay = max_delay
        self.owner = ("sched", engine.inc)

    def _acquire(self):
        self.engine.lock_take(self.key, self.owner)

    def _release(self):
        self.engine.lock_drop(self.key, self.owner)


class VProc(Process):
    """A simulated job process following the TaskRunner protocol"""

    def __init__(self, engine, job):
        self.engine = engine
        self.pid = engine.next_pid
        engine.next_pid += 1
        self.jobname = job.config.name
        self.ordinal = len(engine.procs_by_name.setdefault(self.jobname, [])) + 1
        engine.procs_by_name[self.jobname].append(self)
        self.paths = engine.paths_of(job)
        self.state = "spawned"  # spawned -> body | skip -> exited
        self.code = None
        self.inc = engine.inc

    @property
    def exited(self):
        return self.state == "exited"

    def wait(self):
        assert self.exited
        return self.code

    async def aio_state(self):
        from experimaestro.connectors import ProcessState

        return ProcessState.FINISHED if self.exited else ProcessState.RUNNING

    def tospec(self):
        return {"type": "vfake", "pid": self.pid, "ordinal": self.ordinal}

    @classmethod
    def fromspec(cls, connector, spec):
        p = ENGINE.procs.get(spec["pid"])
        if p is None or p.exited:
            return None
        return AdoptedProc(p)


class AdoptedProc(Process):
    """Handle on a process started by somebody else: no exit code"""

    def __init__(self, proc):
        self.proc = proc

    @property
    def exited(self):
        return self.proc.exited

    def wait(self):
        assert self.proc.exited
        return None

    async def aio_state(self):
        return await self.proc.aio_state()


class VProcessBuilder(ProcessBuilder):
    def __init__(self, engine):
        super().__init__()
        self.engine = engine

    def start(self, task_mode=False):
        job = self.engine.starting_job()
        if self.engine.plan["jobs"][job.config.name].get("codes", [0])[0] == 8:
            # the launcher cannot start the process (no interpreter, batch system refusing the job, ...)
            self.engine.startfailed.add(id(job))
            raise OSError("the process cannot be started (as planned)")
        p = VProc(self.engine, job)
        self.engine.procs[p.pid] = p
        self.engine.launches[p.jobname] = self.engine.launches.get(p.jobname, 0) + 1
        self.engine.fault_point("spawned")
        return p


class VConnector(LocalConnector):
    def __init__(self, engine, localpath):
        super().__init__(localpath)
        self.engine = engine

    def lock(self, path, max_delay=-1):
        return VLock(self.engine, path, max_delay)

    def processbuilder(self):
        return VProcessBuilder(self.engine)

    def createtoken(self, name, total):
        raise NotImplementedError


class VToken(ProcessCounterToken):
    """The real in-process token; acquisitions are observed, not replaced"""

    def __init__(self, engine, name, count):
        super().__init__(count)
        self.engine = engine
        self.vname = name

    def acquire(self, dependency):
        super().acquire(dependency)
        self.engine.held.setdefault(self.engine.key_of(dependency.target), {})[self.vname] = dependency.count

    def release(self, dependency):
        super().release(dependency)
        self.engine.held.get(self.engine.key_of(dependency.target), {}).pop(self.vname, None)


class VCentral:
    def __init__(self, loop):
        self.loop = loop
        self.exitCondition = asyncio.Condition()
        self.dependencyLock = asyncio.Lock()


class HarnessFuture:
    """What run_coroutine_threadsafe returns under the engine"""

    def __init__(self, engine, task):
        self.engine = engine
        self.task = task

    def done(self):
        return self.task.done()

    def result(self, timeout=None):
        self.engine.drive(self.task)
        return self.task.result()


class SchedulerDeath(BaseException):
    """Raised at a fault point: abandon the scheduler without unwinding"""


ENGINE = None


class Engine:
    def __init__(self, plan, chooser, workdir=None, keep=False):
        global ENGINE
        ENGINE = self
        self.plan = plan
        self.chooser = chooser
        self.keep = keep
        self.owndir = workdir is None
        self.workdir = Path(workdir or tempfile.mkdtemp(prefix="xve1-", dir=os.environ.get("XV_SCRATCH")))
        self.trace = []
        self.choices = []
        self.inc = -1
        self.loop = None
        self.threads = []
        self.thread_errors = []
        self.callback_errors = []
        self.pending_kind = {}
        self.procs = {}
        self.procs_by_name = {}
        self.phase = "none"
        self.outjob = {}
        self.next_pid = 1000
        self.locks = {}
        self.launches = {}
        self.bodyruns = {}
        self.bodyends = {}
        self.held = {}
        self.insts = {}
        self.counts = {}
        self.jobs = {}
        self.paths = {}
        self.outputs = {}
        self.tokens = {}
        self.xp = None
        self.waiter = "none"
        self.waiter_task = None
        self.main_result = {}
        self.fault = tuple(plan["fault"]) if plan.get("fault") else None  # (point name, ordinal) at which the scheduler dies
        self.fault_job = "-"
        self.fault_counts = {}
        self.dead = False
        self.steps = 0
        self.mainpos = 0
        self.opdone = False
        self.stopreq = False
        self.maxsteps = plan.get("maxsteps", 3000)
        self._starting = None
        self.installed = False

    # ------------------------------------------------------------ plumbing
    def install(self):
        self._old = (
            _verif.thread_hook,
            _verif.central_hook,
            asyncio.run_coroutine_threadsafe,
            Process.HANDLERS,
        )
        _verif.thread_hook = self.thread_hook
        _verif.central_hook = self.central_hook
        asyncio.run_coroutine_threadsafe = self.run_coroutine_threadsafe
        if Process.HANDLERS is None:
            Process.handler("local")
        Process.HANDLERS["vfake"] = VProc
        self.installed = True

    def uninstall(self):
        if self.installed:
            (_verif.thread_hook, _verif.central_hook, asyncio.run_coroutine_threadsafe, _) = self._old
            self.installed = False

    def thread_hook(self, name, func, args, kwargs):
        fut = self.loop.create_future()
        owner = asyncio.tasks.current_task(self.loop)
        self.threads.append(VThread(self, name, func, args, kwargs, fut, owner))
        return fut

    def central_hook(self, name):
        return VCentral(self.loop)

    def run_coroutine_threadsafe(self, coro, loop):
        assert loop is self.loop, "foreign loop"
        task = loop.create_task(coro)
        job = coro.cr_frame.f_locals.get("job") if coro.cr_frame is not None else None
        kind = coro.cr_code.co_name
        task.xv_kind = kind
        task.xv_job = job
        if kind == "aio_registerJob":
            self.record("UserSubmit", {"j": self.new_instance(job)})
        elif kind == "aio_submit":
            self.record("UserStart", {"j": self.key_of(job)})
        elif kind == "awaitcompletion":
            self.waiter_task = task
            self.record("WaitCall", {})
        elif kind == "doStop":
            pass    # experiment.stop(): recorded as Sigint by the caller
        else:
            raise MachineryError(f"unexpected coroutine {kind}")
        return HarnessFuture(self, task)

    # ------------------------------------------------------------ naming
    def new_instance(self, job):
        name = job.config.name
        k = self.counts.get(name, 0)
        self.counts[name] = k + 1
        key = f"{name}#{k}"
        self.insts[id(job)] = key
        self.jobs[key] = job
        self.paths[name] = self.paths_of(job)
        return key

    def key_of(self, job):
        return self.insts.get(id(job))

    def paths_of(self, job):
        return {
            "done": job.donepath,
            "failed": job.failedpath,
            "pid": job.pidpath,
            "lock": str(job.lockpath),
            "dir": job.path,
        }

    def job_of_task(self, task):
        return getattr(task, "xv_job", None)

    def starting_job(self):
        t = asyncio.tasks.current_task(self.loop)
        return self.job_of_task(t)

    # ------------------------------------------------------------ locks
    def lock_free(self, key):
        return self.locks.get(key) is None

    def lock_take(self, key, owner):
        if self.locks.get(key) is not None:
            raise MachineryError(f"lock {key} would block (held by {self.locks[key]})")
        self.locks[key] = owner

    def lock_drop(self, key, owner):
        if self.locks.get(key) == owner:
            self.locks[key] = None

    # ------------------------------------------------------------ faults
    def fault_point(self, name):
        """SIGKILL of the scheduler *inside* a block of the coroutine: the step runs in a helper thread which is
        parked for ever here (nothing unwinds, no finally / __exit__ runs), the engine carries on without it"""
        n = self.fault_counts.get(name, 0)
        self.fault_counts[name] = n + 1
        if self.fault and self.fault[0] == name and self.fault[1] == n and self.inc == 0:
            t = asyncio.tasks.current_task(self.loop)
            self.fault_job = self.key_of(self.job_of_task(t)) if t is not None else "-"
            self._died.set()
            threading.Event().wait()  # parked for ever (daemon thread)

    def step_with_faults(self):
        """One loop step in a helper thread; returns False if the scheduler died inside it"""
        self._died = threading.Event()
        done = threading.Event()

        def target():
            try:
                self.loop.step()
            finally:
                done.set()

        th = threading.Thread(target=target, daemon=True)
        th.start()
        while not done.is_set() and not self._died.is_set():
            done.wait(0.001)
        return not self._died.is_set()

    # ------------------------------------------------------------ events
    def enabled(self, main):
        opts = []
        if self.phase == "run":
            if self.loop.peek() is not None:
                opts.append(("step",))
            for i, th in enumerate(self.threads):
                if th.inc == self.inc and th.enabled():
                    opts.append(("thread", i))
        for pid, p in sorted(self.procs.items()):
            if p.state == "spawned" and self.lock_free(p.paths["lock"]):
                opts.append(("plock", pid))
            elif p.state in ("body", "skip") and not self.hold_exit():
                opts.append(("pexit", pid))
        if self.phase == "run" and not self.stopreq and self.model_op() == ["wait", "sigint"]:
            opts.append(("sigint",))
        if main:
            opts.append(("main",))
        return opts

    def model_op(self):
        """The operation the main program of the specification is at (s.mpc)"""
        prog = self.plan["program"]
        k = self.mainpos + (1 if self.opdone else 0)
        return list(prog[k]) if k < len(prog) else None

    def choose(self, opts):
        labels = [self.label(o) for o in opts]
        if getattr(self.chooser, "wants_keys", False):
            last = self.trace[-1] if self.trace else None
            self.chooser.keys.append(
                hash((json.dumps(last["st"], sort_keys=True) if last else "", last["a"] if last else "",
                      tuple(labels), len(self.trace) and self.mainpos))
            )
        try:
            i = self.chooser.choose(labels, self)
        except (MachineryError, Livelock):
            raise
        except Exception as e:      # a defect of the harness must never look like an outcome of the code under test
            raise MachineryError(f"chooser failed: {e!r}")
        self.choices.append(i)
        return opts[i]

    def label(self, o):
        if o[0] == "thread":
            th = self.threads[o[1]]
            return f"thread:{th.kind}:{self.key_of(th.job) if th.job is not None else '-'}"
        if o[0] in ("plock", "pexit"):
            return f"{o[0]}:{self.procs[o[1]].jobname}"
        return o[0]

    def perform(self, o):
        self.steps += 1
        if self.steps > self.maxsteps:
            raise Livelock()
        if o[0] == "step":
            h = self.loop.peek()
            lab = self.classify(h, running=True)
            if self.fault and self.inc == 0:
                if not self.step_with_faults():
                    self.kill_scheduler()
                    self.record("Die", {"at": self.fault[0], "j": self.fault_job})
                    return
            else:
                self.loop.step()
            self.after_step(lab)
        elif o[0] == "thread":
            th = self.threads.pop(o[1])
            th.complete()
            self.record("ThreadDone", {"kind": th.kind, "j": self.key_of(th.job) if th.job is not None else "-"})
        elif o[0] == "sigint":
            # SIGINT handler of the main thread (SignalHandler.__call__): xp.stop()
            self.stopreq = True
            self.xp.stop()
            self.record("Sigint", {})
        elif o[0] == "plock":
            p = self.procs[o[1]]
            self.lock_take(p.paths["lock"], ("proc", p.pid))
            if p.paths["done"].exists():
                p.state = "skip"
            else:
                if p.paths["failed"].exists():
                    p.paths["failed"].unlink()
                p.state = "body"
                self.bodyruns[p.jobname] = self.bodyruns.get(p.jobname, 0) + 1
            self.record("ProcLock", {"n": p.jobname, "k": p.ordinal})
        elif o[0] == "pexit":
            p = self.procs[o[1]]
            if p.state == "skip":
                code = 0
            else:
                codes = self.plan["jobs"][p.jobname].get("codes", [0])
                code = codes[min(self.bodyruns[p.jobname] - 1, len(codes) - 1)]
                if code == 0:
                    self.bodyends[p.jobname] = self.bodyends.get(p.jobname, 0) + 1
                    p.paths["done"].touch()
                elif code != 9:
                    p.paths["failed"].write_text(str(code))
            # code 9: the process is killed (SIGKILL, out of memory): no marker, the pid file stays behind
            if p.paths["pid"].exists() and code != 9:
                p.paths["pid"].unlink()
            p.code = code
            p.state = "exited"
            self.lock_drop(p.paths["lock"], ("proc", p.pid))
            self.record("ProcExit", {"n": p.jobname, "k": p.ordinal, "code": code})

    def after_step(self, lab):
        if self.loop.exceptions:
            # asyncio logs and swallows an exception raised by a callback: the step happened, partially
            self.callback_errors.append(repr(self.loop.exceptions[0].get("exception")))
            self.loop.exceptions.clear()
        self.record(lab[0], lab[1])

    # ------------------------------------------------------------ classification of handles
    def classify(self, h, running=False):
        """Abstract label of a pending handle: (action, args).  The set_result hop of a
        completed helper thread stands for the wake-up of the task it will schedule; running
        it is an internal step that leaves the projection unchanged."""
        cb = h._callback
        target = getattr(cb, "__self__", None)
        name = getattr(cb, "__name__", "")
        if isinstance(target, asyncio.tasks._PyTask):
            return self.classify_task(target)
        if isinstance(target, asyncio.futures._PyFuture) and name == "set_result":
            if running:
                return ("Internal", {})
            for t in self.loop.tasks:
                if not t.done() and t._fut_waiter is target:
                    return self.classify_task(t)
            return ("Internal", {})
        if isinstance(target, Dependency) and name == "check":
            return ("DepCheck", {"j": self.key_of(target.target), "o": self.origin_name(target)})
        if getattr(cb, "__qualname__", "").endswith("aio_notify.<locals>.check"):
            dep = h._args[0]
            return ("Notify", {"j": self.key_of(dep.target), "o": self.origin_name(dep)})
        return ("Internal", {})

    def classify_task(self, t):
        kind = getattr(t, "xv_kind", None)
        if kind == "aio_registerJob":
            return ("Register", {"j": self.key_of(t.xv_job)})
        if kind == "aio_submit":
            return ("TaskStep", {"j": self.key_of(t.xv_job)})
        if kind == "awaitcompletion":
            return ("WaiterStep", {})
        if kind == "doStop":
            return ("StopStep", {})
        return ("Internal", {})

    def origin_name(self, dep):
        if isinstance(dep, CounterTokenDependency):
            return dep.token.vname
        return self.key_of(dep.origin)

    # ------------------------------------------------------------ driving
    def drive(self, task):
        while not task.done():
            opts = self.enabled(main=False)
            if not opts:
                raise QuiescentHang()
            self.perform(self.choose(opts))
            if self.dead:
                raise SchedulerDeath("dead")
        if getattr(task, "xv_kind", "") == "awaitcompletion":
            # the loop keeps running until __exit__ stops it
            self.idle()

    def idle(self):
        """Between two main-thread operations: anything may happen"""
        while True:
            opts = self.enabled(main=True)
            if self.hold_main() and len(opts) > 1:
                opts = opts[:-1]
            o = self.choose(opts)
            if o[0] == "main":
                return
            self.perform(o)

    def hold_exit(self):
        """Fault sweep with long-running jobs: no job process ends before the planned scheduler death"""
        if not self.plan.get("slowprocs"):
            return False
        return self.phase == "run" and any(op[0] == "kill" for op in self.plan["program"][self.mainpos + 1:])

    def hold_main(self):
        """Fault sweep: the `kill` of the main program is delayed until `killat` events were recorded"""
        killat = self.plan.get("killat")
        if killat is None and not self.fault:
            return False
        prog = self.plan["program"]
        nxt = prog[self.mainpos + 1] if self.mainpos + 1 < len(prog) else None
        if nxt is None or nxt[0] != "kill":
            return False
        if self.fault:  # the planned death is inside a block: the program's own kill waits for it
            return True
        return len(self.trace) < killat

    def drain(self):
        """After the main program: let the world finish (processes of a dead scheduler)"""
        while True:
            opts = self.enabled(main=False)
            if not opts:
                return
            self.perform(self.choose(opts))

    # ------------------------------------------------------------ scheduler life
    def start_scheduler(self, same_process=False):
        self.inc += 1
        self.dead = False
        self.phase = "run"
        if same_process:
            self.frozen_pc.update({k: self.inst_pc(k, j) for k, j in self.jobs.items() if k not in self.frozen_pc})
        else:
            self.frozen_pc = {}
        self.loop = DetLoop()
        self.threads = []
        if not same_process:
            # (a second experiment of the same program still holds the objects of the first one)
            self.outjob = {}
            self.insts = {}
            self.counts = {}
            self.jobs = {}
            self.held = {}
            self.outputs = {}
        self.waiter = "none"
        self.waiter_task = None
        self.stopreq = False
        self.startfailed = set()
        self.tokens = {n: VToken(self, n, c) for n, c in self.plan.get("tokens", {}).items()}
        launcher = DirectLauncher(VConnector(self, self.workdir / "local"))
        self.xp = experiment(self.workdir, "xv", launcher=launcher)
        self.xp.__enter__()
        self.record("StartSame" if same_process else "Start", {})

    def kill_scheduler(self):
        """SIGKILL of the scheduler process: nothing unwinds, the OS drops its locks"""
        self.dead = True
        self.phase = "dead"
        GRAVEYARD.append((self.loop, self.threads, self.xp, self.jobs, self.tokens))
        for key, owner in list(self.locks.items()):
            if owner is not None and owner[0] == "sched" and owner[1] == self.inc:
                self.locks[key] = None
        # module state that a new process would not have
        experiment.CURRENT = None
        sbase.Workspace.CURRENT = None
        try:
            sbase.SIGNAL_HANDLER.remove(self.xp)
        except Exception:
            pass

    # ------------------------------------------------------------ main-thread program
    def build(self, name):
        from xvschema.sched import Node, NodeOut, NodePass, Holder, Pre

        spec = self.plan["jobs"][name]
        cls = NodePass if spec.get("pass") else NodeOut if spec.get("out") else Node
        kw = {"name": name}
        lst, dct, inners, lol, lod = [], {}, [], [], []
        pre, init, explicit = [], [], []
        for up, how in spec.get("deps", {}).items():
            o = self.outputs[up]
            if how == "direct":
                kw["direct"] = o
            elif how == "list":
                lst.append(o)
            elif how == "dict":
                dct[up] = o
            elif how == "nested":
                kw["nested"] = Holder(inner=o)
            elif how == "nestedlist":
                inners.append(o)
            elif how == "pre":
                pre.append(Pre(up=o, label="pre-" + up))
            elif how == "init":
                init.append(Pre(up=o, label="init-" + up))
            elif how == "explicit":
                explicit.append(up)
            elif how == "meta":
                kw["metaup"] = o
            elif how == "listlist":
                lol.append([o])
            elif how == "listdict":
                lod.append({up: o})
            elif how == "taskobj":
                # the upstream task object itself (not what its submission returned)
                kw["direct"] = self.outjob[up].config
            else:
                raise MachineryError(f"unknown embedding {how}")
        if lst:
            kw["lst"] = lst
        if dct:
            kw["dct"] = dct
        if inners:
            kw["nested"] = Holder(inners=inners)
        if lol:
            kw["lol"] = lol
        if lod:
            kw["lod"] = lod
        cfg = cls(**kw)
        if pre:
            cfg.add_pretasks(*pre)
        for up in explicit:
            cfg.add_dependencies(self.outjob[up].config.__xpm__.dependency())
        for t, c in spec.get("tok", {}).items():
            cfg.add_dependencies(self.tokens[t].dependency(c))
        return cfg, init

    def reg_key(self, name):
        for key, job in self.jobs.items():
            if job.config.name == name and self.xp.scheduler.jobs.get(job.identifier) is job:
                return key
        raise MachineryError(f"{name} is not registered")

    def op_submit(self, name):
        cfg, init = self.build(name)
        out = cfg.submit(init_tasks=init) if init else cfg.submit()
        self.outputs[name] = out
        job = cfg.__xpm__.job
        key = self.key_of(job)
        own = getattr(job, "_future", None) is not None
        self.outjob[name] = job if own else self.xp.scheduler.jobs[job.identifier]
        self.record("SubmitReturn", {"j": key, "r": "own" if own else "dup"})

    def op_wait(self):
        """experiment.__exit__ without exception (waits for all jobs)"""
        xp = self.xp
        try:
            xp.__exit__(None, None, None)
            self.waiter = "ok"
        except FailedExperiment:
            self.waiter = "failed"
        except (SchedulerDeath, QuiescentHang, Livelock, MachineryError):
            raise
        except Exception as e:
            self.waiter = "EXC:" + type(e).__name__
        if xp.exitMode and xp.unfinishedJobs > 0:
            # stopped: the program ends while jobs are running -- for the workspace, the scheduler process dies
            self.kill_scheduler()
            self.record("WaitReturnStopped", {"r": self.waiter})
            return
        self.phase = "closed"
        self.record("WaitReturn", {"r": self.waiter})

    def op_waitjob(self, name):
        key = self.reg_key(name)
        job = self.jobs[key]
        self.record("JobWaitCall", {"j": key})
        try:
            r = job.wait().name
        except (SchedulerDeath, QuiescentHang, Livelock, MachineryError):
            raise
        except Exception as e:
            r = "EXC:" + type(e).__name__
        self.record("JobWaitReturn", {"j": key, "r": r})

    def run(self):
        """Runs the plan; returns the trace record"""
        self.install()
        verdict = {"end": "ok"}
        try:
            self.start_scheduler()
            for self.mainpos, op in enumerate(self.plan["program"]):
                if self.phase != "run" and op[0] not in ("restart", "rmdone", "newxp"):
                    continue
                try:
                    self.opdone = False
                    if op[0] == "submit":
                        self.op_submit(op[1])
                    elif op[0] == "wait":
                        self.op_wait()
                    elif op[0] == "waitjob":
                        self.op_waitjob(op[1])
                    elif op[0] == "kill":
                        self.kill_scheduler()
                        self.record("Die", {"at": "main", "j": "-"})
                    elif op[0] == "rmdone":
                        # the user removes a success marker between two runs
                        if self.phase == "run":
                            raise MachineryError("rmdone while the scheduler runs")
                        self.paths[op[1]]["done"].unlink()
                        self.bodyends[op[1]] = 0
                        self.record("RmDone", {"n": op[1]})
                    elif op[0] == "restart":
                        if self.phase == "run":
                            raise MachineryError("restart of a live scheduler")
                        self.start_scheduler()
                    elif op[0] == "newxp":
                        if self.phase != "closed":
                            raise MachineryError("a second experiment of the same program starts after the first one was left")
                        self.start_scheduler(same_process=True)
                    else:
                        raise MachineryError(f"unknown op {op}")
                    self.opdone = True
                    if self.phase == "run":
                        self.idle()
                except SchedulerDeath:
                    if not self.dead:
                        self.kill_scheduler()
                        self.record("Die", {"at": "fault", "j": "-"})
            self.drain()
            self.record("End", {})
        except QuiescentHang:
            verdict = {"end": "hang"}
            self.record("Hang", {})
        except Livelock:
            verdict = {"end": "livelock"}
            self.record("Hang", {})
        finally:
            self.uninstall()
            if self.owndir and not self.keep:
                shutil.rmtree(self.workdir, ignore_errors=True)
        return {
            "plan": self.plan,
            "choices": self.choices,
            "events": self.trace,
            "verdict": verdict,
            "thread_errors": self.thread_errors,
            "callback_errors": self.callback_errors,
        }

    # ------------------------------------------------------------ projection
    def record(self, action, args):
        self.trace.append({"a": action, "args": args, "st": self.snapshot()})

    def inst_pc(self, key, job):
        if key in getattr(self, "frozen_pc", {}):
            return self.frozen_pc[key]       # (an instance of an earlier experiment of the same program)
        reg = sub = None
        for t in self.loop.tasks:
            if getattr(t, "xv_job", None) is job:
                if t.xv_kind == "aio_registerJob":
                    reg = t
                elif t.xv_kind == "aio_submit":
                    sub = t
        if sub is None:
            return "regdone" if (reg is not None and reg.done()) else "reg"
        if sub.done():
            return "finished"
        if sub._fut_waiter is None:
            return "start"
        for th in self.threads:
            if th.fut is sub._fut_waiter:
                return th.kind
        for h in self.loop.pending():
            # the helper thread has completed, its set_result is still queued
            cb = h._callback
            if getattr(cb, "__self__", None) is sub._fut_waiter and getattr(cb, "__name__", "") == "set_result":
                return getattr(sub._fut_waiter, "xv_kind", "?")
        return getattr(sub._fut_waiter, "xv_kind", "evwait")

    @staticmethod
    def task_result(fut):
        if fut is None or not fut.done():
            return "-"
        if fut.task.exception() is not None:
            return "EXC:" + type(fut.task.exception()).__name__
        r = fut.task.result()
        return getattr(r, "name", str(r))

    def waiter_state(self):
        t = self.waiter_task
        if t is None or self.phase == "dead":
            return "none"
        if t.done():
            if t.exception() is None:
                return "ok"
            return "failed" if isinstance(t.exception(), FailedExperiment) else "EXC:" + type(t.exception()).__name__
        for h in self.loop.pending():
            if self.classify(h)[0] == "WaiterStep":
                return "start" if t._fut_waiter is None else "woken"
        return "waiting"

    def snapshot(self):
        st = {"phase": self.phase, "inc": self.inc}
        insts = {}
        live = self.phase in ("run", "closed")
        if live:
            for key, job in self.jobs.items():
                fut = getattr(job, "_future", None)
                insts[key] = {
                    "state": job.state.name,
                    "unsat": job.unsatisfied,
                    "ev": bool(getattr(job, "_readyEvent", None) and job._readyEvent.is_set()),
                    "dstat": sorted([self.origin_name(d), d.currentstatus.name] for d in job.dependencies),
                    "held": sorted(self.held.get(key, {})),
                    "result": self.task_result(fut),
                    "pc": self.inst_pc(key, job),
                }
        st["insts"] = insts
        st["reg"] = sorted([job.config.name, self.key_of(job)] for job in self.xp.scheduler.jobs.values()) if live else []
        st["unfinished"] = self.xp.unfinishedJobs if live else 0
        st["failed"] = sorted(self.key_of(j) for j in self.xp.failedJobs.values()) if live else []
        st["avail"] = sorted(
            [n, (self.tokens[n].available if live else c)] for n, c in self.plan.get("tokens", {}).items()
        )
        bag = {}
        if live:
            for h in self.loop.pending():
                lab = self.classify(h)
                if lab[0] == "Internal":
                    continue
                k = (lab[0], lab[1].get("j", "-"), lab[1].get("o", "-"))
                bag[k] = bag.get(k, 0) + 1
        st["ready"] = sorted([k[0], k[1], k[2], c] for k, c in bag.items())
        st["threads"] = sorted(
            [th.kind, self.key_of(th.job) if th.job is not None else "-"]
            for th in self.threads
            if th.inc == self.inc and live
        )
        st["waiter"] = self.waiter_state() if live else "none"
        st["stopreq"] = bool(live and self.stopreq)
        st["exitmode"] = bool(live and self.xp.exitMode)
        world = {}
        for name in self.plan["jobs"]:
            paths = self.paths.get(name)
            pid = 0
            if paths and paths["pid"].exists():
                pid = json.loads(paths["pid"].read_text()).get("ordinal", -1)
            world[name] = {
                "done": bool(paths and paths["done"].exists()),
                "failed": bool(paths and paths["failed"].exists()),
                "pid": pid,
                "procs": [
                    (p.state if not p.exited else ("exit0" if p.code == 0 else "killed" if p.code == 9 else "exit1"))
                    for p in self.procs_by_name.get(name, [])
                ],
                "lock": self.lock_owner_kind(paths["lock"]) if paths else "free",
                "launches": self.launches.get(name, 0),
                "bodyruns": self.bodyruns.get(name, 0),
                "bodyends": self.bodyends.get(name, 0),
            }
        st["world"] = world
        return st

    def lock_owner_kind(self, key):
        o = self.locks.get(key)
        return "free" if o is None else o[0]


# ---------------------------------------------------------------- choosers
class RandomChooser:
    PROFILES = [(0.5, 0.3), (0.7, 0.05), (0.3, 0.1), (0.9, 0.02), (0.2, 0.02), (0.5, 0.6)]

    def __init__(self, seed, pstep=None, pmain=None):
        self.rng = random.Random(seed)
        prof = self.PROFILES[self.rng.randrange(len(self.PROFILES))]
        self.pstep = prof[0] if pstep is None else pstep
        self.pmain = prof[1] if pmain is None else pmain
        self.psig = None
        # priority schedules: one kind of step is starved (taken only when nothing else is enabled, or rarely), which
        # stretches the window during which it is pending over everything else that can happen
        self.starve = random.Random(seed * 2654435761 % 2**32).choice(
            [None, None, None, "thread:lockout_abort", "thread:lockin", "thread:lockout", "thread:procwait", "thread:donehandler",
             "pexit", "plock", "step"])

    def choose(self, labels, engine):
        if self.starve and len(labels) > 1:
            keep = [k for k, x in enumerate(labels) if not x.startswith(self.starve)]
            if keep and len(keep) < len(labels) and random.Random(self.rng.random()).random() < 0.97:
                return keep[self._choose([labels[k] for k in keep], engine)]
        return self._choose(labels, engine)

    def _choose(self, labels, engine):
        if "sigint" in labels:
            # Ctrl-C: early, late or never, depending on the execution
            if self.psig is None:
                self.psig = random.Random(self.rng.random()).choice([0.0, 0.01, 0.03, 0.1, 0.4])
            if random.Random(self.rng.random()).random() < self.psig:
                return labels.index("sigint")
            rest = [k for k, x in enumerate(labels) if x != "sigint"]
            if not rest:
                return labels.index("sigint")
            return rest[self._choose([labels[k] for k in rest], engine)]
        if "step" in labels and self.rng.random() < self.pstep:
            return labels.index("step")
        if "main" in labels and self.rng.random() < self.pmain:
            return labels.index("main")
        return self.rng.randrange(len(labels))


class ReplayChooser:
    """Replays a recorded list of choices, then falls back to the first option"""

    wants_keys = True

    def __init__(self, choices):
        self.choices = list(choices)
        self.i = 0
        self.widths = []
        self.keys = []

    def choose(self, labels, engine):
        self.widths.append(len(labels))
        if self.i < len(self.choices):
            c = self.choices[self.i]
            self.i += 1
            if c >= len(labels):
                raise MachineryError("replay diverged")
            return c
        self.i += 1
        return 0


def run_plan(plan, chooser, **kw):
    return Engine(plan, chooser, **kw).run()


if __name__ == "__main__":
    plan = json.loads(sys.argv[1]) if len(sys.argv) > 1 else {
        "jobs": {"a": {"tok": {"t": 1}}, "b": {"deps": {"a": "direct"}, "tok": {"t": 1}}},
        "tokens": {"t": 1},
        "program": [["submit", "a"], ["submit", "b"], ["wait"]],
    }
    r = run_plan(plan, RandomChooser(int(os.environ.get("VERIF_SEED", "0"))))
    for e in r["events"]:
        print(e["a"], e["args"])
    print(r["verdict"], len(r["events"]))
    print(json.dumps(r["events"][-1]["st"], indent=1))
