"""C11, real-process half: the real scheduler process killed at every k-th statement of its launch path (E2-restart)"""
from . import e2_restart as e2
from .common import seed


def run(rep, tier):
    rep.assumptions.append("E2-restart: the fault is a SIGKILL of the real experiment process before the k-th line (all threads) of "
                           "scheduler/base.py, commandline.py, scriptbuilder.py, connectors/local.py; jobs are real processes waiting for a gate")
    (e2.VERIF / ".work").mkdir(exist_ok=True)
    r0 = e2.one((-1, False))
    if r0.get("states") != ["DONE", "DONE", "DONE"] or any(v != [1, 1] for v in r0["bodies"].values()) or r0.get("outputs") != ["x1", "x2", "x3"]:
        rep.violation("C11/restart/baseline", f"the experiment does not even run without a fault: {r0}", {"restart": r0})
        return
    n = r0["count"]
    step = 37 if tier == "quick" else 3
    s0 = seed() % step
    ks = [(k, [False, True, "stopped"][(k // step) % 3]) for k in range(1 + s0, n + 2, step)]
    out = e2.run(ks)
    killed = 0
    for r in out:
        rep.cov["evaluations"] += 1
        if r.get("machinery"):
            rep.machinery_failure(f"restart sweep k={r['k']}: {r['problem']}")
            continue
        killed += bool(r.get("killed"))
        what = f"scheduler killed before statement {r['k']} of its launch path" + (" (jobs still running at the restart)" if r.get("late_gates") else "")
        bad = False
        if r.get("problem"):
            rep.violation(f"C11/restart/{r['problem'][:50]}", f"{what}: {r['problem']}", {"restart": r})
            bad = True
        if r.get("states") != ["DONE", "DONE", "DONE"]:
            rep.violation(f"C11/restart/final-states/{r.get('states')}", f"{what}: running the experiment again ends with {r.get('states')} instead of three successes", {"restart": r})
            bad = True
        lost = sorted((set(r.get("adoptable", [])) - set(r.get("outputs", []))) | (set(r.get("adoptable", [])) & set(r.get("launched_again", []))))
        if r.get("states") == ["DONE", "DONE", "DONE"] and lost and r.get("late_gates"):
            # (a job whose pid file was never written -- death inside the launch block -- cannot be adopted: it is launched
            # again, waits for the run lock and finds the success marker; only jobs that could be adopted are looked at)
            rep.violation("C11/restart/running-job-launched-again", f"{what}: the jobs {lost} were running with their pid file written when the experiment started "
                          "again; they were launched again instead of being adopted (their script ran a second time and found the success marker, or their standard output is gone)", {"restart": r})
            bad = True
        for j, (b, e) in r["bodies"].items():
            if (b, e) != (1, 1):
                rep.violation(f"C11/restart/body-count/{b}-{e}", f"{what}: the body of job {j} began {b} times and ended {e} times overall", {"restart": r})
                bad = True
        if not bad:
            rep.cov["traces_validated_against_impl"] += 1
    rep.cov["restart_sweep"] = {"launch_path_statements": n, "faults": len(ks), "killed": killed}
    rep.cov["distinct_nontrivial"] += killed


def run_signals(rep, prop):
    """Real scheduler, real job processes: the upstream job is terminated by a signal while its body runs.  Its
    dependent is never launched and ends in error, the independent job runs, the experiment reports failure."""
    from concurrent.futures import ThreadPoolExecutor

    (e2.VERIF / ".work").mkdir(exist_ok=True)
    with ThreadPoolExecutor(max_workers=3) as ex:
        out = list(ex.map(e2.signal_case, ["TERM", "INT", "KILL"]))
    for r in out:
        rep.cov["evaluations"] += 1
        if r.get("machinery"):
            rep.machinery_failure("signal scenario: " + r["problem"])
            continue
        what = f"upstream job terminated by SIG{r['sig']} while its body runs"
        if r.get("problem"):
            rep.violation(f"{prop}/signal/{r['problem'][:40]}", f"{what}: {r['problem']}", {"signal": r})
        elif r["states"] != ["ERROR", "ERROR", "DONE"] or r["bodies"]["x2"] != [0, 0] or r["bodies"]["x3"] != [1, 1] or r["rc"] == 0:
            rep.violation(f"{prop}/signal/{r['sig']}/{r['states']}", f"{what}: final states {r['states']} (expected ERROR, ERROR, DONE), the dependent's body began "
                          f"{r['bodies']['x2'][0]} times, the independent job ran {r['bodies']['x3']}, exit status of the experiment {r['rc']}", {"signal": r})
        else:
            rep.cov["traces_validated_against_impl"] += 1


def run_rerun(rep, prop):
    """A failed job submitted again with other values for parameters outside the signature (and other tags): the job
    process of the second attempt observes the second configuration"""
    (e2.VERIF / ".work").mkdir(exist_ok=True)
    r = e2.rerun_case()
    rep.cov["evaluations"] += 1
    if r.get("problem"):
        rep.violation(f"{prop}/rerun/{r['problem'][:40]}", r["problem"], {"rerun": r})
    elif r["states"] != [["ERROR", "ERROR", "DONE"], ["DONE", "DONE", "DONE"]] or r["x1"] != [2, 1, 1] or (r["tags_of_x1"] or {}).get("attempt") != "two":
        rep.violation(f"{prop}/rerun/second-attempt-runs-with-the-first-configuration",
                      f"a job configured to fail, then submitted again configured to succeed (same identifier): final states of the two experiments {r['states']}, "
                      f"body of the job began / failed / ended {r['x1']} times, tags in its parameter file {r['tags_of_x1']} (expected attempt=two)", {"rerun": r})
    else:
        rep.cov["traces_validated_against_impl"] += 1
