"""C20, repair half: behaviours of XpmDeprecated.tla replayed with the real fix_deprecated on real workspaces.

Phase 1 (a process in which the classes are NOT deprecated) generates the job directories under their former
identifiers; phase 2 (a process in which they are) applies the sequences of repairs and observes the tree."""
import os as _os

REPO_SRC = _os.environ.get("XV_REPO_SRC", "/repo/src")
import json
import os
import shutil
import subprocess
import tempfile
from pathlib import Path

from . import tlc, ws

PHASE1 = r'''
import json, sys, logging, warnings
warnings.filterwarnings("ignore"); logging.disable(logging.CRITICAL)
from pathlib import Path
from experimaestro import experiment, RunMode
from xvschema.dep import OldT, OldC, NewT, NewC
root = Path(sys.argv[1]); behs = json.load(open(sys.argv[2])); out = []
for i, beh in enumerate(behs):
    wd = root / f"w{i}"
    jobs = {}
    with experiment(wd, "dep", run_mode=RunMode.GENERATE_ONLY, port=-1) as xp:
        for j in sorted(beh[0]["loc"]):
            # job 1: deprecated task class; job 2: replacement task holding a deprecated configuration
            t = OldT(n=int(j), c=NewC(v=int(j))) if j == "1" else NewT(n=int(j), c=OldC(v=int(j)))
            t.submit()
            job = t.__xpm__.job
            (job.path / "data.txt").write_text(f"result {j}")
            job.donepath.touch()
            jobs[j] = {"old": str(job.path.relative_to(wd))}
    out.append(jobs)
print("P1" + json.dumps(out))
'''

PHASE2 = r'''
import json, sys, os, logging, warnings
warnings.filterwarnings("ignore"); logging.disable(logging.CRITICAL)
from pathlib import Path
from experimaestro import experiment, RunMode
from experimaestro.tools.jobs import fix_deprecated
from xvschema.dep import OldT, OldC, NewT, NewC
root = Path(sys.argv[1]); behs = json.load(open(sys.argv[2])); p1 = json.load(open(sys.argv[3])); relative = sys.argv[4] == "rel"
results = []
for i, (beh, jobs) in enumerate(zip(behs, p1)):
    wd = root / f"w{i}"
    steps = []
    # new locations
    with experiment(wd, "dep2", run_mode=RunMode.DRY_RUN, port=-1) as xp:
        for j in jobs:
            t = NewT(n=int(j), c=NewC(v=int(j)))
            t.submit()
            jobs[j]["new"] = str(t.__xpm__.job.path.relative_to(wd))
    for j, k in beh[0]["link"].items():
        new, old = wd / jobs[j]["new"], wd / jobs[j]["old"]
        new.parent.mkdir(parents=True, exist_ok=True)
        if k == "ok":
            new.symlink_to(old)
        elif k == "dangling":
            new.symlink_to(wd / "jobs" / "nowhere" / j)
    def observe():
        st = {}
        for j in jobs:
            new, old = wd / jobs[j]["new"], wd / jobs[j]["old"]
            loc = "new" if (new.is_dir() and not new.is_symlink()) else ("old" if (old.is_dir() and not old.is_symlink()) else "lost")
            link = "none" if not new.is_symlink() else ("ok" if new.exists() and new.resolve() == old.resolve() else "dangling")
            data = [p.read_text() for p in (new / "data.txt", old / "data.txt") if p.exists()]
            st[j] = {"loc": loc, "link": link, "data": sorted(set(data)), "reach": (new / "data.txt").exists() and (new / (new.parent.name.rsplit(".", 1)[-1] + ".done")).exists() or (new / "data.txt").exists()}
        return st
    if relative:
        os.chdir(wd.parent)
    for ev in beh[1:]:
        try:
            fix_deprecated(Path(wd.name) if relative else wd, ev["fix"], ev["cleanup"])
            err = None
        except Exception as e:
            err = repr(e)[:200]
        steps.append({"st": observe(), "err": err})
    # resubmitting the replacement finds the result
    found = {}
    with experiment(wd, "dep3", run_mode=RunMode.DRY_RUN, port=-1) as xp:
        for j in jobs:
            t = NewT(n=int(j), c=NewC(v=int(j)))
            t.submit()
            found[j] = t.__xpm__.job.donepath.is_file()
    results.append({"steps": steps, "found": found})
print("P2" + json.dumps(results))
'''


def run(rep, tier, sd):
    mc = tlc.tlc("XpmDeprecated.tla", "MC_Deprecated.cfg", workers=1, timeout=900)
    rep.add_tlc("MC_Deprecated", mc, "all sequences of <= 3 repairs (fix / cleanup) from every initial link state")
    if mc.violation:
        rep.violation(f"C20/model/{mc.violation[1]}", f"TLC: {mc.violation}", {"tlc_tail": mc.out[-2000:]})
    behs = ws.parse_behaviours(mc.out)
    if not behs:
        rep.machinery_failure("no behaviour exported by MC_Deprecated: " + str(mc.error))
        return
    import random

    rng = random.Random(sd)
    rng.shuffle(behs)
    behs = behs[: (60 if tier == "quick" else len(behs))]
    root = Path(tempfile.mkdtemp(prefix="xvdep-", dir=str(tlc.workdir("dep"))))
    try:
        bf = root / "behs.json"
        bf.write_text(json.dumps(behs))
        env1 = dict(os.environ, PYTHONPATH=REPO_SRC + ":/verif")
        env1.pop("XV_DEPRECATE", None)
        p = subprocess.run(["/venv/bin/python", "-W", "ignore", "-c", PHASE1, str(root), str(bf)], env=env1, capture_output=True, text=True, timeout=900)
        line = next((l for l in p.stdout.splitlines() if l.startswith("P1")), None)
        if line is None:
            rep.machinery_failure("deprecation phase 1 failed: " + p.stderr[-400:])
            return
        pf = root / "p1.json"
        pf.write_text(line[2:])
        half = len(behs) // 2
        for mode, sl in (("abs", slice(0, half)), ("rel", slice(half, None))):
            sub_b, sub_p = behs[sl], json.loads(line[2:])[sl]
            # re-index the workspaces for this half
            b2, p2 = root / f"b_{mode}.json", root / f"p_{mode}.json"
            b2.write_text(json.dumps(sub_b))
            p2.write_text(json.dumps(sub_p))
            if mode == "rel":
                for k in range(len(sub_b)):
                    os.rename(root / f"w{half + k}", root / f"r{k}")
                for k in range(len(sub_b)):
                    os.rename(root / f"r{k}", root / f"wrel{k}")
            prog = PHASE2 if mode == "abs" else PHASE2.replace('wd = root / f"w{i}"', 'wd = root / f"wrel{i}"')
            q = subprocess.run(["/venv/bin/python", "-W", "ignore", "-c", prog, str(root), str(b2), str(p2), mode],
                               env=dict(env1, XV_DEPRECATE="1"), capture_output=True, text=True, timeout=900)
            l2 = next((l for l in q.stdout.splitlines() if l.startswith("P2")), None)
            if l2 is None:
                rep.machinery_failure(f"deprecation phase 2 ({mode}) failed: " + q.stderr[-400:])
                continue
            for bi, (beh, res) in enumerate(zip(sub_b, json.loads(l2[2:]))):
                rep.cov["evaluations"] += 1
                payload = {"behaviour": beh, "workpath": mode}
                ok = True
                for k, (ev, step) in enumerate(zip(beh[1:], res["steps"])):
                    act = f"fix={ev['fix']} cleanup={ev['cleanup']} ({mode} path)"
                    if step["err"]:
                        rep.violation("C20/repair/exception", f"step {k} {act}: fix_deprecated raised {step['err']}", payload)
                        ok = False
                        break
                    for j, st in step["st"].items():
                        if st["loc"] == "lost" or not st["data"]:
                            rep.violation("C20/repair/data-deleted", f"step {k} {act}: the data of job {j} is gone", payload)
                            ok = False
                        elif (st["loc"], st["link"]) != (ev["loc"][j], ev["link"][j]):
                            rep.violation(f"C20/repair/state/{st['loc']}-{st['link']}-expected-{ev['loc'][j]}-{ev['link'][j]}",
                                          f"step {k} {act}: job {j} is {st['loc']}/{st['link']}, the specification says {ev['loc'][j]}/{ev['link'][j]}", payload)
                            ok = False
                last = beh[-1]
                for j, f in res["found"].items():
                    reach = last["loc"][j] == "new" or last["link"][j] == "ok"
                    if reach and not f:
                        kind = "deprecated-task-class" if j == "1" else "deprecated-inner-configuration"
                        rep.violation(f"C20/repair/resubmit-misses-result/{kind}", f"job {j} ({kind}) is reachable per the specification but a resubmission of the replacement does not find its result ({mode} path)", payload)
                        ok = False
                if ok:
                    rep.cov["traces_validated_against_impl"] += 1
        rep.cov["fix_deprecated"] = {"behaviours": len(behs), "workpath_forms": ["absolute", "relative"]}
        rep.sample({"repair_history": behs[0]})
    finally:
        shutil.rmtree(root.parent, ignore_errors=True)
