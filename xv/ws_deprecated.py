"""C20, repair half: behaviours of XpmDeprecated.tla replayed with the real fix_deprecated on real workspaces.

Phase 1 (a process in which the classes are NOT deprecated) generates the job directories under their former
identifiers; phase 2 (a process in which they are) applies the sequences of repairs and observes the tree."""
import os as _os

REPO_SRC = _os.environ.get("XV_REPO_SRC", "/repo/src")
import json
import os
import shutil
import subprocess
import tempfile
from pathlib import Path

from . import tlc, ws

PHASE1 = r'''
import json, sys, logging, warnings
warnings.filterwarnings("ignore"); logging.disable(logging.CRITICAL)
from pathlib import Path
from experimaestro import experiment, RunMode
import shutil
from xvschema.dep import OldT, OldC, NewT, NewC, submit
root = Path(sys.argv[1]); behs = json.load(open(sys.argv[2])); out = []
for i, beh in enumerate(behs):
    wd = root / f"w{i}"
    jobs = {}
    with experiment(wd, "dep", run_mode=RunMode.GENERATE_ONLY, port=-1) as xp:
        for j in sorted(beh[0]["loc"]):
            t = submit(j, old=True)
            job = t.__xpm__.job
            (job.path / "data.txt").write_text(f"result {j}")
            job.donepath.touch()
            jobs[j] = {"old": str(job.path.relative_to(wd))}
    # bystanders: job directories whose parameter file names a parameter the class no longer has (they cannot be loaded;
    # the repair has to leave them alone and go on)
    for j in list(jobs)[:2]:
        src = wd / jobs[j]["old"]
        for fake in ("0" * 64, "f" * 64):
            dst = src.parent / fake
            shutil.copytree(src, dst, symlinks=True)
            pj = dst / "params.json"
            d = json.loads(pj.read_text())
            d["objects"][-1]["fields"]["removed_since"] = 1
            pj.write_text(json.dumps(d))
    out.append(jobs)
print("P1" + json.dumps(out))
'''

PHASE2 = r'''
import json, sys, os, logging, warnings
warnings.filterwarnings("ignore"); logging.disable(logging.CRITICAL)
from pathlib import Path
from experimaestro import experiment, RunMode
from experimaestro.tools.jobs import fix_deprecated
from xvschema.dep import OldT, OldC, NewT, NewC, submit
root = Path(sys.argv[1]); behs = json.load(open(sys.argv[2])); p1 = json.load(open(sys.argv[3])); relative = sys.argv[4] == "rel"
results = []
for i, (beh, jobs) in enumerate(zip(behs, p1)):
    wd = root / f"w{i}"
    steps = []
    # new locations
    with experiment(wd, "dep2", run_mode=RunMode.DRY_RUN, port=-1) as xp:
        for j in jobs:
            t = submit(j, old=False)
            jobs[j]["new"] = str(t.__xpm__.job.path.relative_to(wd))
    for j, k in beh[0]["link"].items():
        new, old = wd / jobs[j]["new"], wd / jobs[j]["old"]
        new.parent.mkdir(parents=True, exist_ok=True)
        if k == "ok":
            new.symlink_to(old)
        elif k == "dangling":
            new.symlink_to(wd / "jobs" / "nowhere" / j)
    def observe():
        st = {}
        for j in jobs:
            new, old = wd / jobs[j]["new"], wd / jobs[j]["old"]
            loc = "new" if (new.is_dir() and not new.is_symlink()) else ("old" if (old.is_dir() and not old.is_symlink()) else "lost")
            link = "none" if not new.is_symlink() else ("ok" if new.exists() and new.resolve() == old.resolve() else "dangling")
            data = [p.read_text() for p in (new / "data.txt", old / "data.txt") if p.exists()]
            st[j] = {"loc": loc, "link": link, "data": sorted(set(data)), "reach": (new / "data.txt").exists() and (new / (new.parent.name.rsplit(".", 1)[-1] + ".done")).exists() or (new / "data.txt").exists()}
        return st
    if relative:
        os.chdir(wd.parent)
    for ev in beh[1:]:
        try:
            fix_deprecated(Path(wd.name) if relative else wd, ev["fix"], ev["cleanup"])
            err = None
        except Exception as e:
            err = repr(e)[:200]
        steps.append({"st": observe(), "err": err})
    # resubmitting the replacement finds the result
    found = {}
    with experiment(wd, "dep3", run_mode=RunMode.DRY_RUN, port=-1) as xp:
        for j in jobs:
            t = submit(j, old=False)
            found[j] = t.__xpm__.job.donepath.is_file()
    results.append({"steps": steps, "found": found})
print("P2" + json.dumps(results))
'''


def run(rep, tier, sd):
    mc = tlc.tlc("XpmDeprecated.tla", "MC_Deprecated.cfg", workers=1, timeout=900)
    rep.add_tlc("MC_Deprecated", mc, "all sequences of <= 3 repairs (fix / cleanup) from every initial link state")
    if mc.violation:
        rep.violation(f"C20/model/{mc.violation[1]}", f"TLC: {mc.violation}", {"tlc_tail": mc.out[-2000:]})
    behs = ws.parse_behaviours(mc.out)
    if not behs:
        rep.machinery_failure("no behaviour exported by MC_Deprecated: " + str(mc.error))
        return
    import random

    rng = random.Random(sd)
    rng.shuffle(behs)
    behs = behs[: (60 if tier == "quick" else len(behs))]
    root = Path(tempfile.mkdtemp(prefix="xvdep-", dir=str(tlc.workdir("dep"))))
    try:
        bf = root / "behs.json"
        bf.write_text(json.dumps(behs))
        env1 = dict(os.environ, PYTHONPATH=REPO_SRC + ":/verif")
        env1.pop("XV_DEPRECATE", None)
        p = subprocess.run(["/venv/bin/python", "-W", "ignore", "-c", PHASE1, str(root), str(bf)], env=env1, capture_output=True, text=True, timeout=900)
        line = next((l for l in p.stdout.splitlines() if l.startswith("P1")), None)
        if line is None:
            rep.machinery_failure("deprecation phase 1 failed: " + p.stderr[-400:])
            return
        pf = root / "p1.json"
        pf.write_text(line[2:])
        half = len(behs) // 2
        for mode, sl in (("abs", slice(0, half)), ("rel", slice(half, None))):
            sub_b, sub_p = behs[sl], json.loads(line[2:])[sl]
            # re-index the workspaces for this half
            b2, p2 = root / f"b_{mode}.json", root / f"p_{mode}.json"
            b2.write_text(json.dumps(sub_b))
            p2.write_text(json.dumps(sub_p))
            if mode == "rel":
                for k in range(len(sub_b)):
                    os.rename(root / f"w{half + k}", root / f"r{k}")
                for k in range(len(sub_b)):
                    os.rename(root / f"r{k}", root / f"wrel{k}")
            prog = PHASE2 if mode == "abs" else PHASE2.replace('wd = root / f"w{i}"', 'wd = root / f"wrel{i}"')
            q = subprocess.run(["/venv/bin/python", "-W", "ignore", "-c", prog, str(root), str(b2), str(p2), mode],
                               env=dict(env1, XV_DEPRECATE="1"), capture_output=True, text=True, timeout=900)
            l2 = next((l for l in q.stdout.splitlines() if l.startswith("P2")), None)
            if l2 is None:
                rep.machinery_failure(f"deprecation phase 2 ({mode}) failed: " + q.stderr[-400:])
                continue
            for bi, (beh, res) in enumerate(zip(sub_b, json.loads(l2[2:]))):
                rep.cov["evaluations"] += 1
                payload = {"behaviour": beh, "workpath": mode}
                ok = True
                for k, (ev, step) in enumerate(zip(beh[1:], res["steps"])):
                    act = f"fix={ev['fix']} cleanup={ev['cleanup']} ({mode} path)"
                    if step["err"]:
                        rep.violation("C20/repair/exception", f"step {k} {act}: fix_deprecated raised {step['err']}", payload)
                        ok = False
                        break
                    for j, st in step["st"].items():
                        if st["loc"] == "lost" or not st["data"]:
                            rep.violation("C20/repair/data-deleted", f"step {k} {act}: the data of job {j} is gone", payload)
                            ok = False
                        elif (st["loc"], st["link"]) != (ev["loc"][j], ev["link"][j]):
                            rep.violation(f"C20/repair/state/{st['loc']}-{st['link']}-expected-{ev['loc'][j]}-{ev['link'][j]}",
                                          f"step {k} {act}: job {j} is {st['loc']}/{st['link']}, the specification says {ev['loc'][j]}/{ev['link'][j]}", payload)
                            ok = False
                last = beh[-1]
                for j, f in res["found"].items():
                    reach = last["loc"][j] == "new" or last["link"][j] == "ok"
                    if reach and not f:
                        kind = "deprecated-task-class" if j == "1" else "deprecated-inner-configuration"
                        rep.violation(f"C20/repair/resubmit-misses-result/{kind}", f"job {j} ({kind}) is reachable per the specification but a resubmission of the replacement does not find its result ({mode} path)", payload)
                        ok = False
                if ok:
                    rep.cov["traces_validated_against_impl"] += 1
        rep.cov["fix_deprecated"] = {"behaviours": len(behs), "workpath_forms": ["absolute", "relative"]}
        rep.sample({"repair_history": behs[0]})
    finally:
        shutil.rmtree(root.parent, ignore_errors=True)


# --------------------------------------------------------------------------------------------------------------
# Crash-consistency of the repair: XpmDeprecatedSteps.tla
# --------------------------------------------------------------------------------------------------------------
CRASH_SETUP = r'''
import json, sys, logging, warnings
warnings.filterwarnings("ignore"); logging.disable(logging.CRITICAL)
from pathlib import Path
from experimaestro import experiment, RunMode
from xvschema.dep import OldT, OldC, NewT, NewC, submit
root = Path(sys.argv[1]); cases = json.load(open(sys.argv[2])); p1 = json.load(open(sys.argv[3]))
for i, (case, jobs) in enumerate(zip(cases, p1)):
    wd = root / f"w{i}"
    with experiment(wd, "dep2", run_mode=RunMode.DRY_RUN, port=-1) as xp:
        for j in jobs:
            t = submit(j, old=False)
            jobs[j]["new"] = str(t.__xpm__.job.path.relative_to(wd))
    for j, k in case["link"].items():
        new, old = wd / jobs[j]["new"], wd / jobs[j]["old"]
        new.parent.mkdir(parents=True, exist_ok=True)
        (wd / ("orig_params_" + j)).write_text((old / "params.json").read_text())
        if k == "ok":
            new.symlink_to(old)
        elif k == "dangling":
            new.symlink_to(wd / "jobs" / "nowhere" / j)
print("P1" + json.dumps(p1))
'''

CRASH_RUN = r'''
import json, sys, os, logging, warnings
warnings.filterwarnings("ignore"); logging.disable(logging.CRITICAL)
from pathlib import Path
import experimaestro.tools.jobs as tj
from xvschema.dep import OldT, OldC, NewT, NewC
wd = Path(sys.argv[1]); fix = sys.argv[2] == "1"; cleanup = sys.argv[3] == "1"; mode = sys.argv[4]; k = int(sys.argv[5])
count = 0
if mode == "kill":
    FN = tj.__file__
    def tracer(frame, event, arg):
        global count
        if frame.f_code.co_filename != FN:
            return None
        if event == "line":
            count += 1
            if count == k:
                os._exit(77)     # the repair process disappears before this statement
        return tracer
    sys.settrace(tracer)
elif mode == "enospc":
    # the k-th json.dump of the repair fails after half of the text (disk full)
    import json as _json, types
    def dump(obj, fp, **kw):
        global count
        count += 1
        text = _json.dumps(obj, **kw)
        if count == k:
            fp.write(text[: len(text) // 2]); fp.flush()
            raise OSError(28, "No space left on device")
        fp.write(text)
    shim = types.ModuleType("json"); shim.__dict__.update(_json.__dict__); shim.dump = dump
    tj.json = shim
try:
    tj.fix_deprecated(wd, fix, cleanup)
    res = "end"
except OSError as e:
    res = "oserror" if e.errno == 28 else "exc:" + repr(e)[:200]
except Exception as e:
    res = "exc:" + repr(e)[:200]
sys.settrace(None)
print("RES" + json.dumps({"res": res, "count": count}))
'''

CRASH_OBSERVE = r'''
import json, sys, os, logging, warnings
warnings.filterwarnings("ignore"); logging.disable(logging.CRITICAL)
from pathlib import Path
from experimaestro import experiment, RunMode
from experimaestro.tools.jobs import fix_deprecated
from xvschema.dep import OldT, OldC, NewT, NewC, submit
root = Path(sys.argv[1]); cases = json.load(open(sys.argv[2])); p1 = json.load(open(sys.argv[3]))
out = []
for i, (case, jobs) in enumerate(zip(cases, p1)):
    wd = root / f"w{i}"
    def observe():
        st = {}
        for j in jobs:
            new, old = wd / jobs[j]["new"], wd / jobs[j]["old"]
            loc = "new" if (new.is_dir() and not new.is_symlink()) else ("old" if (old.is_dir() and not old.is_symlink()) else "lost")
            link = "none" if not new.is_symlink() else ("ok" if new.exists() and new.resolve() == old.resolve() else "dangling")
            d = new if loc == "new" else old
            try:
                text = (d / "params.json").read_text()
                if text == (wd / ("orig_params_" + j)).read_text():
                    params = "old"
                else:
                    json.loads(text)["objects"]
                    params = "new"
            except Exception as e:
                params = "torn"
            st[j] = {"loc": loc, "link": link, "params": params, "tmp": any(x.with_name("params.json.tmp").exists() for x in (new / "params.json", old / "params.json")),
                     "data": sorted({p.read_text() for p in (new / "data.txt", old / "data.txt") if p.exists()})}
        return st
    r = {"after_fault": observe()}
    try:
        fix_deprecated(wd, True, case["cleanup2"])
        r["err"] = None
    except Exception as e:
        r["err"] = repr(e)[:300]
    r["after_repair"] = observe()
    found = {}
    try:
        with experiment(wd, "dep3", run_mode=RunMode.DRY_RUN, port=-1) as xp:
            for j in jobs:
                t = submit(j, old=False)
                found[j] = t.__xpm__.job.donepath.is_file()
    except Exception as e:
        r["err"] = r["err"] or ("resubmission: " + repr(e)[:300])
    r["found"] = found
    out.append(r)
print("P2" + json.dumps(out))
'''


def crash_cases(tier, sd, counts):
    """(initial links, fix, cleanup, fault mode, k, cleanup of the recovery repair)"""
    links = [{"1": a, "2": b} for a in ("none", "ok", "dangling") for b in ("none", "ok", "dangling")]
    cases = []
    if tier == "quick":
        plan = [(links[0], True, True, 1), (links[5], True, True, 3), (links[2], True, False, 3), (links[4], False, True, 5)]
    else:
        plan = [(lk, f, c, 1) for lk in links for (f, c) in ((True, True), (True, False), (False, True))]
    for lk, f, c, step in plan:
        n = counts[(f, c)] + 2
        for k in range(1 + sd % step, n + 1, step):
            cases.append({"link": lk, "fix": f, "cleanup": c, "mode": "kill", "k": k, "cleanup2": (k + sd) % 2 == 0})
        if f and c:
            for k in (1, 2):
                cases.append({"link": lk, "fix": f, "cleanup": c, "mode": "enospc", "k": k, "cleanup2": k == 1})
    return cases


def _py(prog, args, env, timeout=900):
    return subprocess.run(["/venv/bin/python", "-W", "ignore", "-c", prog] + [str(a) for a in args], env=env, capture_output=True, text=True, timeout=timeout)


def run_crash(rep, tier, sd, only=None):
    from concurrent.futures import ThreadPoolExecutor

    mc = tlc.tlc("XpmDeprecatedSteps.tla", "MC_DeprecatedSteps.cfg", timeout=900)
    rep.add_tlc("MC_DeprecatedSteps", mc, "2 jobs, any sequence of repairs, a crash between any two file-system operations")
    if mc.violation:
        rep.violation(f"C20/model/{mc.violation[1]}", f"TLC: {mc.violation}", {"tlc_tail": mc.out[-2000:]})
    elif mc.error:
        rep.machinery_failure("TLC failed on MC_DeprecatedSteps: " + str(mc.error))
    root = Path(tempfile.mkdtemp(prefix="xvdepc-", dir=str(tlc.workdir("depc"))))
    env1 = dict(os.environ, PYTHONPATH=REPO_SRC + ":/verif")
    env1.pop("XV_DEPRECATE", None)
    env2 = dict(env1, XV_DEPRECATE="1")

    def generate(sub, cases):
        d = root / sub
        d.mkdir()
        cf = d / "cases.json"
        cf.write_text(json.dumps(cases))
        behs = [[{"loc": {j: "old" for j in c["link"]}}] for c in cases]
        bf = d / "behs.json"
        bf.write_text(json.dumps(behs))
        p = _py(PHASE1, [d, bf], env1)
        line = next((x for x in p.stdout.splitlines() if x.startswith("P1")), None)
        if line is None:
            raise RuntimeError("generation failed: " + p.stderr[-400:])
        pf = d / "p1.json"
        pf.write_text(line[2:])
        q = _py(CRASH_SETUP, [d, cf, pf], env2)
        line = next((x for x in q.stdout.splitlines() if x.startswith("P1")), None)
        if line is None:
            raise RuntimeError("set-up failed: " + q.stderr[-400:])
        pf.write_text(line[2:])
        return d, cf, pf

    def fault(d, i, c):
        q = _py(CRASH_RUN, [d / f"w{i}", int(c["fix"]), int(c["cleanup"]), c["mode"], c["k"]], env2, timeout=300)
        line = next((x for x in q.stdout.splitlines() if x.startswith("RES")), None)
        if q.returncode == 77:
            return {"res": "crashed"}
        if line is None:
            return {"res": "machinery:" + q.stderr[-300:]}
        return json.loads(line[3:])

    try:
        # calibration: number of statements of a complete repair
        cal = [{"link": {"1": "none", "2": "dangling"}, "fix": f, "cleanup": c, "mode": "kill", "k": 10**9, "cleanup2": False}
               for (f, c) in ((True, True), (True, False), (False, True))]
        d, cf, pf = generate("cal", cal)
        counts = {}
        for i, c in enumerate(cal):
            r = fault(d, i, c)
            if str(r.get("res", "")).startswith("exc:"):
                rep.violation("C20/repair/exception", f"a plain repair fix={c['fix']} cleanup={c['cleanup']} raises {r['res'][4:]}", {"case": c, "fault_result": r})
                return
            if r.get("res") != "end":
                rep.machinery_failure("calibration of the repair failed: " + str(r)[:300])
                return
            counts[(c["fix"], c["cleanup"])] = r["count"]
        rep.cov["repair_statements"] = {f"fix={f} cleanup={c}": n for (f, c), n in counts.items()}
        cases = only or crash_cases(tier, sd, counts)
        d, cf, pf = generate("run", cases)
        with ThreadPoolExecutor(max_workers=16) as ex:
            results = list(ex.map(lambda ic: fault(d, ic[0], ic[1]), enumerate(cases)))
        q = _py(CRASH_OBSERVE, [d, cf, pf], env2, timeout=1800)
        line = next((x for x in q.stdout.splitlines() if x.startswith("P2")), None)
        if line is None:
            rep.machinery_failure("observation after the faults failed: " + q.stderr[-400:])
            return
        obs = json.loads(line[2:])
        strip = lambda st: {j: {k: v for k, v in x.items() if k != "data"} for j, x in st.items()}
        traces, idx = [], []
        for i, (c, r, o) in enumerate(zip(cases, results, obs)):
            rep.cov["evaluations"] += 1
            payload = {"case": c, "fault_result": r, "observed": o}
            what = f"{c['mode']} fault k={c['k']} in a repair fix={c['fix']} cleanup={c['cleanup']} from links {c['link']}"
            if r["res"].startswith("machinery"):
                rep.machinery_failure(r["res"])
                continue
            if r["res"].startswith("exc:"):
                rep.violation("C20/repair/exception", f"{what}: fix_deprecated raised {r['res'][4:]}", payload)
                continue
            bad = False
            for phase in ("after_fault", "after_repair"):
                for j, st in o[phase].items():
                    if st["loc"] == "lost" or not st["data"]:
                        rep.violation("C20/crash/data-deleted", f"{what}: the data of job {j} is gone {phase}", payload)
                        bad = True
                    elif st["params"] == "torn":
                        rep.violation("C20/crash/torn-params", f"{what}: params.json of job {j} is unreadable {phase.replace('_', ' the ')}", payload)
                        bad = True
            if o["err"]:
                rep.violation("C20/crash/recovery-raises", f"{what}: the next repair fails: {o['err']}", payload)
                bad = True
            if bad:
                continue
            for j, f in o["found"].items():
                if not f and j != "1":       # job 1: known finding (deprecated task class), reported by the replay half
                    rep.violation("C20/crash/resubmit-misses-result", f"{what}: after the recovery repair a resubmission does not find the result of job {j}", payload)
            ev = [{"e": "init", "link": c["link"]}, {"e": "begin", "fix": c["fix"], "cleanup": c["cleanup"]},
                  {"e": "end" if r["res"] == "end" else "crashed", "st": strip(o["after_fault"])},
                  {"e": "begin", "fix": True, "cleanup": c["cleanup2"]}, {"e": "end", "st": strip(o["after_repair"])}]
            traces.append({"ev": ev})
            idx.append((i, what, payload))
        verdicts, stats = tlc.validate_batch("XpmDeprecatedSteps_Trace.tla", "XpmDeprecatedSteps_Trace.cfg", traces, shard=80, deque=True)
        for e in stats["errors"][:2]:
            rep.machinery_failure("TLC failed on a repair history batch: " + e[-500:])
        rep.cov["states"] += stats["distinct"]
        rep.cov["transitions"] += stats["generated"]
        rep.cov["tlc_runs"].append({"config": "XpmDeprecatedSteps_Trace (batches)", "distinct": stats["distinct"], "generated": stats["generated"], "wall_s": round(stats["wall"], 1)})
        states = set()
        for (i, what, payload), t, v in zip(idx, traces, verdicts):
            if v["accepted"] and not v["inv"]:
                rep.cov["traces_validated_against_impl"] += 1
                states.add(json.dumps(t["ev"][2]["st"], sort_keys=True))
            else:
                r = v["reached"] or 0
                nxt = t["ev"][r] if r < len(t["ev"]) else None
                rep.violation(f"C20/crash/history/{nxt and nxt['e']}/{json.dumps(nxt and nxt.get('st'), sort_keys=True)}",
                              f"{what}: no behaviour of XpmDeprecatedSteps explains the tree observed at event {r + 1}: {nxt} {v['inv']}", payload)
        rep.cov["fix_deprecated_crash"] = {"faults": len(cases), "distinct_trees_after_fault": len(states),
                                          "killed": sum(r["res"] == "crashed" for r in results), "write_errors": sum(r["res"] == "oserror" for r in results)}
        rep.cov["distinct_nontrivial"] += len(states)
        if traces:
            rep.sample({"interrupted_repair_history": traces[len(traces) // 2]})
    except RuntimeError as e:
        rep.machinery_failure("crash engine: " + str(e))
    finally:
        shutil.rmtree(root.parent, ignore_errors=True)
