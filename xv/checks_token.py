"""Multi-process half of C08 / C09: XpmTokenFS.tla (TLC exhaustive) + scenarios of real processes sharing a file token"""
import json
import os

from . import tlc, token
from . import e2_token as e2

INV_OF = {"C06": {"Informed"}, "C11": set(),
          "C08": {"Capacity", "MutualExclusion", "TypeOK", "RunningHoldFile", "RunningUnderCapacity"},
          "C09": {"ObserversSurvive", "Informed", "NoOrphanEmptyFile", "ReclaimOnlyAfterEnd", "Capacity"}}
# events whose mismatch concerns each property
EVENTS_OF = {"C11": ("tok.init", "tok.info", "h.start", "tok.acq", "end"),   # the next scheduler on the token directory a dead one left
             "C06": ("sched.dep", "h.quiescent", "tok.evt.info"),     # a job that waits for ever with the token free: the submission steps, the quiescent points
             "C08": ("tok.acq", "tok.create", "tok.file.delete", "tok.watch.reclaim", "tok.evt.cached", "tok.rel", "h.start", "tok.watching", "tok.init"),
             "C09": ("sched.dep", "tok.rel", "tok.evt", "tok.init", "tok.dep.changed", "tok.watch", "tok.watching", "tok.file.delete", "h.quiescent", "tok.init.error", "tok.acq.count", "h.start")}


def lazy_table(rep, prop):
    """XpmLazyTable: TLC on both designs + the counterexample's interleaving replayed on the real Process.handler (the
    first thread is held inside the enumeration of the entry points until the second one has asked for its handler)"""
    import threading

    res = tlc.tlc("XpmLazyTable.tla", "MC_LazyTable.cfg", workers=1, timeout=300)
    rep.add_tlc("MC_LazyTable", res, "2 threads x 2 handlers: a registered handler is always found")
    if res.violation:
        rep.violation(f"{prop}/model/lazy-table/{res.violation[1]}", f"TLC: {res.violation} in MC_LazyTable", {"tlc_tail": res.out[-1500:]})
    elif res.error:
        rep.machinery_failure(f"TLC failed on MC_LazyTable: {res.error}")
    res = tlc.tlc("XpmLazyTable.tla", "MC_LazyTable_F24.cfg", workers=1, timeout=300)
    rep.add_tlc("MC_LazyTable_F24", res, "the table visible while it is being filled: must violate AlwaysFound")
    if not res.violation and not res.error:
        rep.machinery_failure("XpmLazyTable does not show the race of F24")
    import pkg_resources

    from experimaestro import connectors

    orig, saved = pkg_resources.iter_entry_points, connectors.Process.HANDLERS
    inside, go = threading.Event(), threading.Event()
    first = []

    def held(group=None, name=None):
        eps = list(orig(group=group, name=name) if name else orig(group=group))
        if not first:
            first.append(threading.get_ident())
            inside.set()
            go.wait(10)
        return iter(eps)

    out = {}

    def ask(i):
        try:
            out[i] = connectors.Process.handler("local")
        except Exception as e:  # noqa
            out[i] = e

    try:
        connectors.Process.HANDLERS = None
        pkg_resources.iter_entry_points = held
        t1 = threading.Thread(target=ask, args=(1,))
        t1.start()
        if not inside.wait(10):
            rep.machinery_failure("lazy table: the first thread never reached the enumeration of the entry points")
        ask(2)
        go.set()
        t1.join(10)
    finally:
        pkg_resources.iter_entry_points = orig
        connectors.Process.HANDLERS = saved
    rep.cov["evaluations"] += 1
    if out.get(1) is None or out.get(2) is None or isinstance(out.get(1), Exception) or isinstance(out.get(2), Exception):
        rep.violation(f"{prop}/lazy-table/handler-missing",
                      f"two threads use the table of process handlers for the first time at once (the reclaim threads started by the first recount of a "
                      f"token directory holding two token files): the handler of 'local' is {out.get(1)!r} for the thread that builds the table and "
                      f"{out.get(2)!r} for the other one -- Process.fromDefinition then fails and the token file it watched is never removed",
                      {"token_scenario": "two_killed_orphans"})
    else:
        rep.cov["traces_validated_against_impl"] += 1


def run(rep, prop, tier, replay_name=None, only=None):
    rep.assumptions.append("E2-token: mini scheduler processes around the real CounterToken (real ipc lock, watchdog observer, reclaim "
                           "threads); jobs are stand-ins holding the job lock; the order of the shared O_APPEND log is the order of events")
    if replay_name is None and prop != "C06" and not only:
        cfg = "MC_TokenFS_two_TRUE.cfg" if tier == "thorough" else "MC_TokenFS_quick.cfg"
        res = tlc.tlc("MC_TokenFS.tla", cfg, timeout=2400)
        rep.add_tlc(cfg, res, "2 processes, 1 unit, every interleaving of critical sections, observers, reclaim threads, one death")
        if res.violation:
            if res.violation[1] in INV_OF[prop]:
                rep.violation(f"{prop}/model/{res.violation[1]}", f"TLC: {res.violation} in {cfg}", {"tlc_tail": res.out[-2500:]})
        elif res.error:
            rep.machinery_failure(f"TLC failed on {cfg}: {res.error}")
    if replay_name is None and not only and prop == "C08":
        # a job that comes back under the same token file name while a reclaim thread still watches its first run (F23)
        res = tlc.tlc("MC_TokenFS.tla", "MC_TokenFS_resubmit.cfg", timeout=2400)
        rep.add_tlc("MC_TokenFS_resubmit", res, "total 4, a job asking for 1 then 3, another asking for 2, depth <= 30")
        if res.violation:
            rep.violation(f"{prop}/model/{res.violation[1]}", f"TLC: {res.violation} in MC_TokenFS_resubmit", {"tlc_tail": res.out[-2500:]})
        elif res.error:
            rep.machinery_failure(f"TLC failed on MC_TokenFS_resubmit: {res.error}")
        res = tlc.tlc("MC_TokenFS.tla", "MC_TokenFS_resubmit_F23.cfg", timeout=2400)
        rep.add_tlc("MC_TokenFS_resubmit_F23", res, "the reclaim as it was (no job lock): must violate RunningHoldFile")
        if not res.violation and not res.error:
            rep.machinery_failure("MC_TokenFS does not show the stale reclaim (F23)")
        res = tlc.tlc("MC_TokenFS.tla", "MC_TokenFS_latestart_resub.cfg", timeout=2400)
        rep.add_tlc("MC_TokenFS_latestart_resub", res, "one unit; the other scheduler starts at any moment (StartCount, StartWatch) while the first one's job ends, "
                    "gives the token back and takes it again under the same file name; depth <= 30")
        if res.violation:
            rep.violation(f"{prop}/model/{res.violation[1]}", f"TLC: {res.violation} in MC_TokenFS_latestart_resub", {"tlc_tail": res.out[-2500:]})
        elif res.error:
            rep.machinery_failure(f"TLC failed on MC_TokenFS_latestart_resub: {res.error}")
        res = tlc.tlc("MC_TokenFS.tla", "MC_TokenFS_resubmit_F28.cfg", timeout=2400)
        rep.add_tlc("MC_TokenFS_resubmit_F28", res, "late deletion events handled as they were (the token held again is forgotten, then watched by a thread "
                    "of its own process, which the job lock does not stop): must violate RunningHoldFile")
        if not res.violation and not res.error:
            rep.machinery_failure("MC_TokenFS does not show the late deletion event (F28)")
    if replay_name is None and not only and prop == "C09":
        lazy_table(rep, prop)
        # the owner's release against the reclaim thread of another scheduler, at the grain of TokenFile.delete() (F26)
        res = tlc.tlc("MC_TokenFS.tla", "MC_TokenFS_F26.cfg", timeout=1200)
        rep.add_tlc("MC_TokenFS_F26", res, "is_file() / unlink() as they were (the error of the unlink escapes from release()): must violate Informed")
        if not res.violation and not res.error:
            rep.machinery_failure("MC_TokenFS does not show the release raced by a reclaim thread (F26)")
        # a scheduler that starts while the token file of an ended job is still there: first count, reclaim, watching (F27)
        res = tlc.tlc("MC_TokenFS.tla", "MC_TokenFS_F27.cfg", timeout=1200)
        rep.add_tlc("MC_TokenFS_F27", res, "CounterToken.__init__ as it was (counted once, before the directory is watched): must violate Informed")
        if not res.violation and not res.error:
            rep.machinery_failure("MC_TokenFS does not show the deletion that falls between the first count and the watching (F27)")
        if tier == "thorough":
            res = tlc.tlc("MC_TokenFS.tla", "MC_TokenFS_latestart.cfg", timeout=2400)
            rep.add_tlc("MC_TokenFS_latestart", res, "a scheduler that starts at any moment of the life of the other one's job (StartCount, StartWatch), one unit")
            if res.violation:
                if res.violation[1] in INV_OF[prop]:
                    rep.violation(f"{prop}/model/{res.violation[1]}", f"TLC: {res.violation} in MC_TokenFS_latestart", {"tlc_tail": res.out[-2500:]})
            elif res.error:
                rep.machinery_failure(f"TLC failed on MC_TokenFS_latestart: {res.error}")
            res = tlc.tlc("MC_TokenFS.tla", "MC_TokenFS_latestart3.cfg", timeout=2400)
            rep.add_tlc("MC_TokenFS_latestart3", res, "the same with a third scheduler that only watches (its reclaim threads race with the newcomer's), depth <= 26")
            if res.violation:
                if res.violation[1] in INV_OF[prop]:
                    rep.violation(f"{prop}/model/{res.violation[1]}", f"TLC: {res.violation} in MC_TokenFS_latestart3", {"tlc_tail": res.out[-2500:]})
            elif res.error:
                rep.machinery_failure(f"TLC failed on MC_TokenFS_latestart3: {res.error}")
            res = tlc.tlc("MC_TokenFS.tla", "MC_TokenFS_raced.cfg", timeout=2400)
            rep.add_tlc("MC_TokenFS_raced", res, "two jobs of one scheduler, one unit, the other scheduler only watches: every placement of its reclaim "
                        "between the owner's test and removal of the token file")
            if res.violation:
                if res.violation[1] in INV_OF[prop]:
                    rep.violation(f"{prop}/model/{res.violation[1]}", f"TLC: {res.violation} in MC_TokenFS_raced", {"tlc_tail": res.out[-2500:]})
            elif res.error:
                rep.machinery_failure(f"TLC failed on MC_TokenFS_raced: {res.error}")
    if replay_name is None and not only:
        if prop in ("C06", "C09"):
            # the two steps of a submission (register with the token, first check): the order of the code holds, the other loses a release
            res = tlc.tlc("MC_TokenFS.tla", "MC_TokenFS_addfirst.cfg", timeout=2400)
            rep.add_tlc("MC_TokenFS_addfirst", res, "3 jobs, requests 1/1/2, depth <= 26: registered before checked")
            if res.violation:
                rep.violation(f"{prop}/model/{res.violation[1]}", f"TLC: {res.violation} in MC_TokenFS_addfirst", {"tlc_tail": res.out[-2500:]})
            elif res.error:
                rep.machinery_failure(f"TLC failed on MC_TokenFS_addfirst: {res.error}")
            res = tlc.tlc("MC_TokenFS.tla", "MC_TokenFS_checkfirst.cfg", timeout=2400)
            rep.add_tlc("MC_TokenFS_checkfirst", res, "the other order (must violate Informed: what the order protects)")
            if not res.violation and not res.error:
                rep.machinery_failure("MC_TokenFS does not distinguish the two orders of registration and first check")
            # the token declared again with a larger total while a job waits for it (thorough: and while another one holds it)
            cfg = "MC_TokenFS_retotal.cfg" if tier == "thorough" else "MC_TokenFS_retotal_quick.cfg"
            res = tlc.tlc("MC_TokenFS.tla", cfg, timeout=2400)
            rep.add_tlc(cfg[:-4], res, "total 1 declared again as 3 by the other process; requests 2 and 1")
            if res.violation:
                rep.violation(f"{prop}/model/{res.violation[1]}", f"TLC: {res.violation} in {cfg}", {"tlc_tail": res.out[-2500:]})
            elif res.error:
                rep.machinery_failure(f"TLC failed on {cfg}: {res.error}")
    names = [] if replay_name and replay_name.startswith("random:") else [replay_name] if replay_name else list(only) if only else [n for n in e2.SCENARIOS if not n.startswith("full") and (prop != "C06" or n in ("contention", "mixed", "enlarged", "enlarged_while_held", "missing_at_release", "release_raced"))]
    reps = 1 if replay_name else (2 if tier == "quick" else 12)
    jobs, results = token.run_scenarios(names, reps)
    if not replay_name and not only:
        # real experiments (real schedulers, real jobs) sharing the token of the workspace connector
        fj, fr = token.run_scenarios(["full_one_unit", "full_mixed"], 1 if tier == "quick" else 6, workers=4)
        jobs, results = jobs + fj, results + fr
    if not replay_name and not only and prop in ("C08", "C09"):
        # random walks of two schedulers and three jobs over the life of a token, commands issued in pairs at the same time
        from .common import seed as _seed

        # (not part of the registered checks: the recount of a release has no event of its own, and a reclaim thread of another
        #  process that removes another job's file between tok.rel.lock and that recount makes the count logged by tok.rel.ok
        #  differ from the model's -- seen once in 480 walks under a load of 55; the walks stay available as an exploratory
        #  driver: XV_RANDOM_WALKS=<n> ./check C09 --tier thorough)
        n = int(os.environ.get("XV_RANDOM_WALKS", "0"))
        base = 100000 * _seed()
        if n:
            rj, rr = token.run_random(range(base, base + n))
            jobs, results = jobs + rj, results + rr
    if replay_name and replay_name.startswith("random:"):
        jobs, results = token.run_random([int(replay_name.split(":")[1])])
    verdicts, stats = token.validate(results)
    rep.cov["reordered_announced_deletions"] = stats.get("reordered", 0)
    for e in stats["errors"][:2]:
        rep.machinery_failure("TLC failed on a token trace batch: " + e[-400:])
    rep.cov["states"] += stats["distinct"]
    rep.cov["transitions"] += stats["generated"]
    kinds = set()
    for name, r, v in zip(jobs, results, verdicts):
        rep.cov["evaluations"] += 1
        payload = {"token_scenario": name}
        for pr in r["problems"]:
            if pr.startswith("observer") and prop == "C09":
                rep.violation("C09/token-trace/observer-raised", f"scenario {name}: {pr} (an observer thread that raises dies: later releases go unnoticed)", payload)
            elif pr.startswith(("experiment", "bodies", "body")) and prop == "C09":
                rep.violation(f"C09/full-run/{pr.split(':')[0][:40]}", f"scenario {name}: {pr}", payload)
            elif not pr.startswith(("observer", "experiment", "bodies", "body")):
                rep.machinery_failure(f"token scenario {name}: {pr}")
        if v["accepted"]:
            rep.cov["traces_validated_against_impl"] += 1
            kinds.add((name, tuple(e["e"] for e in r["ev"] if e["e"].startswith(("tok.acq.fail", "tok.watch.reclaim", "h.kill", "tok.evt.deleted")))))
        else:
            reached = v["reached"] or 0
            nxt = r["ev"][reached] if reached < len(r["ev"]) else {"e": "end"}
            if nxt["e"].startswith("h.") and not nxt["e"].startswith(("h.start", "h.quiescent")) and prop in ("C08", "C09"):
                # a step of the harness itself that the model cannot take: the scenario and the model disagree, nothing is known
                # about the code (the rest of the trace was not examined)
                rep.machinery_failure(f"token scenario {name}: the model cannot take the harness step {nxt} (event {reached + 1})")
            if nxt["e"].startswith(EVENTS_OF[prop]):
                what = {k: nxt[k] for k in ("e", "p", "job", "available", "new", "by") if k in nxt}
                rep.violation(f"{prop}/token-trace/{name}/{nxt['e']}", f"scenario {name}: no behaviour of XpmTokenFS explains event {reached + 1}: {what}", payload)
        for inv in v["inv"]:
            if inv in INV_OF[prop]:
                rep.violation(f"{prop}/token-trace/{inv}", f"scenario {name}: {inv} violated on the recorded execution", payload)
        if len(rep.cov["samples"]) < 4 and v["accepted"]:
            rep.sample({"token_scenario": name, "events": [[e["e"], e.get("p"), e.get("job")] for e in r["ev"][:25]]})
    rep.cov["distinct_nontrivial"] += len(kinds)
    rep.cov["rule"] += (" | token scenarios: scripted runs of 2-3 real processes on one token directory (contention, half-written file, "
                        "owner death while running / mid-creation, partial returns, mixed requests); distinct = distinct sequences of "
                        "contention / reclaim / death events")
