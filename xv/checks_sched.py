"""Checks decided with XpmScheduler.tla + engine E1: C04 C05(a) C06 C07 C08(a) C09(a) C11(a)"""
import json
import os
import zlib

from . import sched, tlc
from .common import Report, seed
from .plans import PLANS, P

# invariants / action properties of the specification that belong to each property
INV_OF = {
    "C04": {"NoEarlyLaunch"},
    "C05": {"OneBodyAtATime", "NoBodyAfterDone", "NoLaunchWhenDoneAtSubmit", "RegistryDedup", "SuccessfulBodyAtMostOnce"},
    "C06": {"FinalAbsorbing", "ResultIsFinal", "TruthfulFinal", "WaitOnlyWhenAllFinal", "CounterNonNegative",
            "deadlock", "TypeOK"},
    "C07": {"ExitReportsFailureIffFailed", "FailedDependentsCancelled", "IndependentJobsRun", "NoEarlyLaunch"},
    "C08": {"Capacity", "RunningUnderCapacity"},
    "C09": {"IdleTokenIsFull", "deadlock", "Capacity"},
    "C11": {"OneBodyAtATime", "NoBodyAfterDone", "SuccessfulBodyAtMostOnce", "deadlock"},
    "C10": set(),
}
# clauses of the state projection whose disagreement with the specification concerns each property
CLAUSES_OF = {
    "C04": {"insts.dstat", "insts.unsat", "insts.state", "world"},
    "C05": {"reg", "world", "insts.domain"},
    "C06": None,  # every disagreement concerns the job state machine / experiment exit
    "C07": {"failed", "insts.state", "insts.result", "waiter", "unfinished"},   # (unfinished: leaving early = independent jobs never run)
    "C08": {"avail", "insts.held"},
    "C09": {"avail", "insts.held", "ready", "insts.ev", "insts.dstat", "insts.unsat"},
    "C11": {"world", "phase", "insts.domain", "insts.state", "insts.result", "failed"},
    "C10": {"world"},      # the scheduler's side of the job directory: lock held over spawn + pid file, markers, pid file
}
FAMILIES = {
    "C04": ["dag"], "C05": ["sub", "restart"], "C06": ["dag", "tok", "sub", "stop"], "C07": ["dag"],
    "C08": ["tok"], "C09": ["tok"], "C11": ["restart", "stop"],
    "C10": [],
}
PLAN_FILTER = {
    "C04": lambda n: n.startswith(("chain", "fork", "join", "diamond", "tok-dep", "tok-big", "tok3", "late", "resubmit-dep",
                                   "waitjob", "kill-restart", "rerun")),
    "C05": lambda n: n.startswith(("dup", "resubmit", "rerun", "kill", "stop", "chain2-direct", "reuse")),
    "C06": lambda n: True,
    "C07": lambda n: "fail" in n or n.startswith(("late", "diamond", "fork", "chain3", "resubmit", "rerun-failed", "oom", "kill-restart-oom", "startfail", "reuse")),
    "C08": lambda n: n.startswith(("tok", "kill-restart-tok", "startfail-tok")),
    "C09": lambda n: n.startswith(("tok", "kill-restart-tok", "startfail-tok")),
    "C11": lambda n: n.startswith(("rerun", "kill", "stop")),
    "C10": lambda n: n.startswith(("chain2-direct", "kill-restart", "startfail", "oom", "resubmit")),
}
TINY = {
    "one": P({"a": {}}, [["submit", "a"], ["wait"]]),
    "one-fail": P({"a": {"codes": [1]}}, [["submit", "a"], ["wait"]]),
    "one-tok": P({"a": {"tok": {"t": 1}}}, [["submit", "a"], ["wait"]], {"t": 1}),
}
DFS_PLANS = {
    "C04": ["chain2-direct", "chain2-pre"],
    "C05": ["dup", "resubmit", "kill-restart-dup"],
    "C06": ["one", "one-fail", "chain2-direct", "tok1-2", "resubmit"],
    "C07": ["one-fail", "late-dependent"],
    "C08": ["one-tok", "tok1-2", "tok-big"],
    "C09": ["one-tok", "tok1-2", "tok-big"],
    "C11": ["rerun-done", "kill-restart-dup"],
    "C10": ["one", "one-fail"],
}


# ---------------------------------------------------------------- direct oracles on recorded states
def oracle(prop, result):
    """Evaluates the property's core predicate directly on the recorded states (used for the part of
    an execution the specification could not follow).  Returns (event index, what) or None"""
    plan = result["plan"]
    evs = result["events"]
    jobs = plan["jobs"]
    cap = plan.get("tokens", {})
    prev = None
    old = set()       # instances of earlier experiments of the same program
    for k, e in enumerate(evs, 1):
        st = e["st"]
        w = st["world"]
        if e["a"] == "StartSame" and prev is not None:
            old = set(prev["insts"])
        elif e["a"] == "Start":
            old = set()
        if prop in ("C04", "C07") and prev is not None:
            for n in jobs:
                if w[n]["launches"] > prev["world"][n]["launches"]:
                    for u in jobs[n].get("deps", {}):
                        if not prev["world"][u]["done"]:
                            return k, f"{n} launched while {u} has not succeeded"
        if prop in ("C05", "C11"):
            for n in jobs:
                if w[n]["procs"].count("body") > 1:
                    return k, f"two bodies of {n} at once"
                if prev is not None and w[n]["bodyruns"] > prev["world"][n]["bodyruns"] and prev["world"][n]["done"]:
                    return k, f"body of {n} started although it had succeeded"
                if w[n]["bodyends"] > 1:
                    return k, f"body of {n} succeeded {w[n]['bodyends']} times"
            if prop == "C05" and e["a"] == "SubmitReturn" and e["args"]["r"] == "own" and prev is not None:
                # a second job for a configuration already submitted in this experiment: only legitimate after a failure
                n, num = e["args"]["j"].split("#")
                if int(num) > 0 and sum(1 for i in prev["insts"] if i.startswith(n + "#") and i not in old and i != e["args"]["j"]) >= 1 and w[n]["done"] and not w[n]["failed"]:
                    return k, f"a second job was created for {n}, which has succeeded and never failed"
        if prop == "C06":
            if prev is not None and prev["phase"] == "run" and st["phase"] != "dead" and st["inc"] == prev["inc"]:
                for i, v in st["insts"].items():
                    pv = prev["insts"].get(i)
                    if pv and pv["state"] in ("DONE", "ERROR") and v["state"] != pv["state"]:
                        return k, f"{i} left final state {pv['state']} for {v['state']}"
            for i, v in st["insts"].items():
                if v["result"] != "-" and (v["result"] not in ("DONE", "ERROR") or v["result"] != v["state"]):
                    return k, f"waiting on {i} returns {v['result']} (state {v['state']})"
            if st.get("exitmode") and not st.get("stopreq"):
                return k, "the experiment is in exit mode although stop() was never called"
            if st["waiter"] in ("ok", "failed") and not st.get("exitmode"):      # (after stop() an early return is the documented behaviour)
                for i, v in st["insts"].items():
                    if v["pc"] not in ("reg", "regdone") and v["state"] not in ("DONE", "ERROR"):
                        return k, f"experiment wait returned while {i} is {v['state']}"
        if prop == "C07" and st["waiter"] in ("ok", "failed") and not st.get("exitmode"):
            anyerr = any(v["state"] == "ERROR" and v["pc"] not in ("reg", "regdone") for i, v in st["insts"].items() if i not in old)
            if anyerr != (st["waiter"] == "failed"):
                return k, f"exit reports {st['waiter']} with failed jobs={anyerr}"
        if prop in ("C08", "C09") and st["phase"] in ("run", "closed"):
            avail = dict(map(tuple, st["avail"]))
            for t, c in cap.items():
                held = sum(jobs[i.split("#")[0]].get("tok", {}).get(t, 0) for i, v in st["insts"].items() if t in v["held"])
                if prop == "C08" and (held > c or avail[t] != c - held):
                    return k, f"token {t}: held {held}, available {avail[t]}, capacity {c}"
                if prop == "C09" and e["a"] == "End" and st["phase"] == "closed" and avail[t] != c:
                    return k, f"token {t} not full at the end ({avail[t]}/{c})"
        prev = st
    if prop == "C07" and evs and evs[-1]["a"] == "End" and evs[-1]["st"]["phase"] == "closed":
        # every job whose upstream jobs all succeeded has run (or had succeeded before)
        st = evs[-1]["st"]
        for i, v in st["insts"].items():
            n = i.split("#")[0]
            ups = jobs[n].get("deps", {})
            if v["pc"] in ("reg", "regdone") or st["exitmode"] or jobs[n].get("codes", [0])[0] == 8:
                continue
            if all(st["world"][u]["done"] for u in ups) and not (st["world"][n]["launches"] > 0 or st["world"][n]["done"]):
                return len(evs), f"{n} does not depend on a failed job but was never run"
    if result["verdict"]["end"] == "hang" and prop in ("C06", "C09"):
        return len(evs), "quiescent hang: the main thread is blocked and nothing is enabled"
    if result["verdict"]["end"] == "livelock" and prop in ("C06", "C07", "C09"):
        return len(evs), "livelock: the scheduler keeps taking steps without ever finishing (step budget exhausted)"
    return None


def nontrivial(result):
    acts = [e["a"] for e in result["events"]]
    steps = [e for e in result["events"]]
    abort = any(v["pc"] == "lockout_abort" for e in steps for v in e["st"]["insts"].values())
    fail = any(e["a"] == "ProcExit" and e["args"]["code"] != 0 for e in steps)
    dup = any(e["a"] == "SubmitReturn" and e["args"]["r"] == "dup" for e in steps)
    die = "Die" in acts
    return abort or fail or dup or die or acts.count("ThreadDone") > 8


# ---------------------------------------------------------------- the check
def run(prop, tier, replay=None, rep=None, finish=True):
    rep = rep or Report(prop, tier, "fault_enumeration" if prop in ("C10", "C11") else "model_checking")
    rep.assumptions += [
        "E1: helper threads, job processes and the main thread are scheduled by the engine; loop callbacks run in "
        "FIFO order as in asyncio; job processes follow the TaskRunner protocol as simulated by the engine "
        "(the real TaskRunner is bound to XpmJobDir by C10)",
        "the model's pending-callback bag is a superset of asyncio's FIFO order",
    ]
    fix = sched.fixed_set()

    if replay:
        payload = json.loads(open(replay).read())["payload"]
        results = sched.execute([(payload["plan"], "replay", payload["choices"])], workers=1)
        verdicts, stats = sched.validate(results, fix)
        judge(rep, prop, results, verdicts, ["replay"])
        print(json.dumps(verdicts[0], indent=1))
        return rep.finish()

    # 1. the specification itself
    ok, out = tlc.sany("MC_Sched.tla")
    ok2, out2 = tlc.sany("XpmScheduler_Trace.tla")
    if not (ok and ok2):
        rep.machinery_failure("SANY rejects the scheduler specification: " + (out + out2)[-500:])
        return rep.finish()
    for fam in FAMILIES[prop]:
        res = tlc.tlc("MC_Sched.tla", f"MC_Sched_{fam}.cfg", timeout=1500)
        rep.add_tlc(f"MC_Sched_{fam}", res)
        if res.violation:
            name = res.violation[1]
            if name in INV_OF[prop]:
                rep.violation(f"{prop}/model/{name}", f"TLC: {res.violation[0]} {name} violated in MC_Sched_{fam}",
                              {"tlc_tail": res.out[-4000:]})
            else:
                print(f"note: MC_Sched_{fam}: {res.violation} (belongs to another property)")
        elif res.error:
            rep.machinery_failure(f"TLC failed on MC_Sched_{fam}: {res.error}")
    if tier == "thorough" and prop in ("C06", "C09"):
        res = tlc.tlc("MC_Sched.tla", "MC_Sched_live.cfg", timeout=3000)
        rep.add_tlc("MC_Sched_live", res, "liveness under weak fairness")
        if res.violation:
            rep.violation(f"{prop}/model/EventuallyAllFinal", "TLC: liveness violated", {"tlc_tail": res.out[-4000:]})
        elif res.error:
            rep.machinery_failure(f"TLC failed on MC_Sched_live: {res.error}")

    # 2. the implementation: systematic + random schedules, validated against the specification
    allplans = dict(PLANS)
    allplans.update(TINY)
    names = [n for n in PLANS if PLAN_FILTER[prop](n)]
    nrand = 6 if tier == "quick" else 150
    budget = 350 if tier == "quick" else 6000
    s0 = seed()
    # contention plans get more schedules: lost wake-ups need a release inside the window of an aborted start
    reps = {n: nrand * (5 if n.startswith(("tok", "stop-restart-tok", "kill-restart-tok")) else 1) for n in names}
    jobs = [(allplans[n], "random", (s0 * 1000003 + k) * 131 + zlib.crc32(n.encode()) % 97) for n in names for k in range(reps[n])]
    labels = [n for n in names for k in range(reps[n])]
    # fault sweep: the scheduler dies after k recorded events, for every k along a few base schedules
    nbase = 2 if tier == "quick" else 12
    for n in names:
        if any(op[0] == "kill" for op in allplans[n]["program"]):
            for b in range(nbase):
                for k in range(0, 64, 1 if tier == "thorough" else 2):
                    pl = dict(allplans[n])
                    pl["killat"] = k
                    pl["slowprocs"] = b % 2 == 0
                    jobs.append((pl, "random", (s0 * 7919 + b) * 64 + k))
                    labels.append(f"{n}/killat{k}")
            # ... and inside the launch block: after the spawn of the k-th launch, before its pid file is written
            for k in range(0, 3):
                for b in range(nbase * 2):
                    pl = dict(allplans[n])
                    pl["fault"] = ["spawned", k]
                    pl["slowprocs"] = b % 2 == 0
                    jobs.append((pl, "random", (s0 * 7919 + b) * 64 + k + 7))
                    labels.append(f"{n}/die-after-spawn{k}")
    results = sched.execute(jobs)
    dfs = sched.execute_dfs([allplans[n] for n in DFS_PLANS[prop]], budget)
    exhaustive = []
    for n, (out, complete) in zip(DFS_PLANS[prop], dfs):
        results += out
        labels += [n + "/dfs"] * len(out)
        exhaustive.append({"plan": n, "schedules": len(out), "complete": complete})
    verdicts, stats = sched.validate(results, fix)
    for e in stats["tlc_errors"][:3]:
        rep.machinery_failure("TLC failed on a trace batch: " + e[-600:])
    rep.cov["states"] += stats["distinct"]
    rep.cov["transitions"] += stats["generated"]
    rep.cov["tlc_runs"].append({"config": "XpmScheduler_Trace (batches)", "distinct": stats["distinct"],
                                "generated": stats["generated"], "wall_s": round(stats["tlc_wall"], 1)})
    rep.cov["systematic"] = exhaustive
    judge(rep, prop, results, verdicts, labels)
    rep.cov["rule"] += (
        "executions of the real scheduler under E1 (random schedules with VERIF_SEED + state-deduplicated systematic "
        "enumeration for the plans under 'systematic'); distinct = distinct choice sequences; non-trivial = the "
        "execution contains an aborted start, a failing process, a duplicate submission, a scheduler death or more "
        "than 8 helper-thread completions"
    )
    return rep.finish() if finish else rep


def judge(rep, prop, results, verdicts, labels):
    seen = set()
    nontriv = set()
    for lab, r, v in zip(labels, results, verdicts):
        if "machinery" in v:
            rep.machinery_failure(f"{lab}: {v['machinery']}")
            continue
        rep.cov["evaluations"] += 1
        key = (lab.split("/")[0], tuple(r["choices"]))
        if key not in seen:
            seen.add(key)
            if nontrivial(r):
                nontriv.add(key)
        payload = {"plan": r["plan"], "choices": r["choices"], "label": lab}
        if v["accepted"]:
            rep.cov["traces_validated_against_impl"] += 1
        else:
            m = v["mismatch"]
            clauses = set(m["failed_clauses"])
            mine = CLAUSES_OF[prop]
            if mine is None or clauses & mine:
                ev = m["event"]
                rep.violation(
                    f"{prop}/conformance/{ev['a'] if ev else 'end'}/{'+'.join(sorted(clauses))}",
                    f"{lab}: the real scheduler leaves the specification at event {m['event_index']} "
                    f"({ev}); disagreeing clauses: {sorted(clauses)}",
                    payload,
                )
        for x in v["inv"]:
            for name in x["names"]:
                if name in INV_OF[prop]:
                    rep.violation(f"{prop}/trace/{name}", f"{lab}: {name} violated at event {x['at']} of a recorded execution", payload)
        errs = (r.get("callback_errors") or []) + [str(x) for x in (r.get("thread_errors") or [])]
        if errs and prop == "C06":
            rep.violation(f"C06/exception/{errs[0][:50]}", f"{lab}: exception inside a scheduler callback / helper thread: {errs[0][:200]}", payload)
        o = oracle(prop, r)
        if o:
            rep.violation(f"{prop}/oracle/{o[1].split(':')[0][:60]}", f"{lab}: {o[1]} (event {o[0]})", payload)
        if len(rep.cov["samples"]) < 3 and v["accepted"]:
            rep.sample({"plan": lab, "choices": r["choices"][:60], "events": [[e["a"], e["args"]] for e in r["events"][:40]]})
    rep.cov["distinct_nontrivial"] += len(nontriv)
    rep.cov["distinct_executions"] = rep.cov.get("distinct_executions", 0) + len(seen)
