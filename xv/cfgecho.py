"""C12, last sentence: what the task code observes in the job process (parameter file written by the real
code in GENERATE_ONLY mode, loaded and executed by experimaestro.run.run in a fresh interpreter)"""
import os as _os

REPO_SRC = _os.environ.get("XV_REPO_SRC", "/repo/src")
import json
import os
import subprocess
import sys
import tempfile
import shutil
from pathlib import Path

GEN = r'''
import json, sys, logging, warnings, random
warnings.filterwarnings("ignore"); logging.disable(logging.CRITICAL)
from pathlib import Path
from experimaestro import experiment, RunMode
from xv import cfgreal as R
from xvschema.cfg import Echo
root = Path(sys.argv[1]); graphs = json.load(open(sys.argv[2])); out = []
with experiment(root / "ws", "echo", run_mode=RunMode.GENERATE_ONLY, port=-1) as xp:
    xp.workspace.launcher.setenv("PYTHONPATH", sys.argv[3])
    for i, (g, r) in enumerate(graphs):
        objs = R.build(g, None)
        tags = {}
        reach, todo = {r}, [r]
        while todo:
            for v in g[todo.pop()]["vals"].values():
                stack = [v]
                while stack:
                    x = stack.pop()
                    if x[0] == "cfg" and x[1] not in reach:
                        reach.add(x[1]); todo.append(x[1])
                    elif x[0] == "list":
                        stack.extend(x[1])
                    elif x[0] == "dict":
                        stack.extend(y for _, y in x[1])
        for n, o in objs.items():
            if int(n) % 2 == 1 and n in reach:
                o.tag("t" + n, int(n)); tags["t" + n] = int(n)
        t = Echo(x=objs[r], n=i).tag("top", "v%d" % i); tags["top"] = "v%d" % i
        try:
            t.submit()
            rec = {"dir": str(t.__xpm__.job.path), "tags": tags, "echo": str(t.out)}
        except Exception as e:
            out.append({"error": repr(e)[:200]})
            continue
        # a task directory whose parameter file also defines other submitted tasks: loading it gives this task
        if i % 3 == 0:
            from experimaestro.core.serialization import from_task_dir
            from xvschema.cfg import K, T0
            try:
                up = T0(n=1000 + i).submit()
                t2 = Echo(x=K(a=i, c=up, l=[T0(n=2000 + i).submit()]), n=5000 + i)
                t2.submit()
                problems = []
                for as_instance in (False, True):
                    o = from_task_dir(t2.__xpm__.job.path, as_instance=as_instance)
                    name = type(o).__mro__[0].__name__.split(".")[0] if not as_instance else type(o).__name__.split(".")[0]
                    if "Echo" not in type(o).__qualname__ or getattr(o, "n", None) != 5000 + i:
                        problems.append(f"from_task_dir(as_instance={as_instance}) returns a {type(o).__qualname__} (n={getattr(o, 'n', None)}) instead of the task of the directory")
                rec["taskdir"] = problems
            except Exception as e:
                rec["taskdir"] = ["from_task_dir raised " + repr(e)[:200]]
        out.append(rec)
print("JOBS" + json.dumps(out))
'''

RUN = r'''
import json, sys, os, logging, warnings
warnings.filterwarnings("ignore"); logging.disable(logging.CRITICAL)
from pathlib import Path
from experimaestro.run import run
for d in json.load(open(sys.argv[1])):
    os.chdir(d)
    try:
        run(Path(d) / "params.json")
    except Exception as e:
        Path(d, "echo.error").write_text(repr(e))
'''


def same(graph, n, echo, m, mapping, problems):
    """node n of the configured graph vs node m of the echoed runtime graph"""
    if n in mapping:
        if mapping[n] != m:
            problems.append(f"node {n} seen as two objects by the task")
        return
    if m in mapping.values():
        problems.append(f"nodes merged in the task process ({n})")
        return
    mapping[n] = m
    spec, got = graph[n], echo["nodes"][m]
    if got["cls"] != spec["cls"]:
        problems.append(f"node {n}: class {got['cls']} in the task process, configured {spec['cls']}")
        return
    for a, v in spec["vals"].items():
        cmpv(graph, v, got["vals"].get(a), echo, mapping, problems, f"node {n}.{a}")


def cmpv(graph, v, g, echo, mapping, problems, where):
    if g is None:
        problems.append(f"{where}: not visible in the task process")
    elif v[0] == "cfg":
        if g[0] != "cfg":
            problems.append(f"{where}: {g} in the task process, configured a configuration")
        else:
            same(graph, v[1], echo, g[1], mapping, problems)
    elif v[0] == "list":
        if g[0] != "list" or len(g[1]) != len(v[1]):
            problems.append(f"{where}: {g} in the task process, configured {v}")
        else:
            for i, (x, y) in enumerate(zip(v[1], g[1])):
                cmpv(graph, x, y, echo, mapping, problems, f"{where}[{i}]")
    elif v[0] == "dict":
        gd = dict((k, x) for k, x in g[1]) if g[0] == "dict" else None
        if gd is None or sorted(gd) != sorted(k for k, _ in v[1]):
            problems.append(f"{where}: {g} in the task process, configured {v}")
        else:
            for k, x in v[1]:
                cmpv(graph, x, gd[k], echo, mapping, problems, f"{where}[{k}]")
    elif v[0] == "float":
        if g[0] != "float" or float(g[1]) != float(v[1]):
            problems.append(f"{where}: {g} in the task process, configured {v}")
    elif g != v:
        problems.append(f"{where}: {g} in the task process, configured {v}")


def run(graphs_roots, repo_src=REPO_SRC):
    """graphs_roots: list of (graph, root).  Returns list of problem lists"""
    from . import tlc

    root = Path(tempfile.mkdtemp(prefix="xvecho-", dir=str(tlc.workdir("echo"))))
    env = dict(os.environ, PYTHONPATH=f"{repo_src}:/verif", XPM_VERIF="1")
    try:
        gf = root / "graphs.json"
        gf.write_text(json.dumps(graphs_roots))
        p = subprocess.run(["/venv/bin/python", "-W", "ignore", "-c", GEN, str(root), str(gf), f"{repo_src}:/verif"], env=env,
                           capture_output=True, text=True, cwd="/verif", timeout=600)
        line = next((l for l in p.stdout.splitlines() if l.startswith("JOBS")), None)
        if line is None:
            return None, "generation failed: " + p.stderr[-400:]
        jobs = json.loads(line[4:])
        dirs = [j["dir"] for j in jobs if "dir" in j]
        df = root / "dirs.json"
        df.write_text(json.dumps(dirs))
        env2 = dict(env)
        env2.pop("XPM_VERIF", None)
        subprocess.run(["/venv/bin/python", "-W", "ignore", "-c", RUN, str(df)], env=env2, capture_output=True, text=True, cwd="/", timeout=600)
        out = []
        for (g, r), j in zip(graphs_roots, jobs):
            problems = []
            if "error" in j:
                problems.append("submit failed: " + j["error"])
            else:
                ef = Path(j["echo"])
                if not ef.exists():
                    err = Path(j["dir"], "echo.error")
                    problems.append("the task did not run: " + (err.read_text()[:200] if err.exists() else "no output"))
                else:
                    e = json.loads(ef.read_text())
                    same(g, r, e["graph"], e["graph"]["root"], {}, problems)
                    if e["tags"] != j["tags"]:
                        problems.append(f"tags seen by the task {e['tags']} differ from the configured ones {j['tags']}")
                problems += ["task directory: " + x for x in j.get("taskdir", [])]
            out.append(problems)
        return out, None
    finally:
        shutil.rmtree(root.parent, ignore_errors=True)
