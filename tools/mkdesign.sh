#!/bin/bash
# DESIGN.md = Part I (DESIGN_part1.md, what is built) + Part II (docs/DESIGN_round0.md, the design written before the code)
cd /verif
{ cat DESIGN_part1.md
  echo; echo "---"; echo
  echo "# Part II — the design as written before the build (round 0)"
  echo
  echo "Kept unchanged for its reasoning and its code-level appendices. Where it says \"will\", read Part I for what was"
  echo "actually done; where the two differ Part I is right."
  echo
  sed -e '1d' -e 's/^#/##/' docs/DESIGN_round0.md
} > DESIGN.md
