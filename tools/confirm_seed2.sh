#!/bin/bash
# usage: confirm_seed2.sh <NN> <k>   (k = "", 2 or 3) -- independent confirmation of a wave-2 seeded change (written against HEAD)
NN=$1; K=$2; R=${SEEDROOT:-/tmp/seed2}
out=$R/out/$NN; wt=$R/c${NN}_${K:-1}; log=$R/confirm/${NN}_${K:-1}.log
mkdir -p $R/confirm; exec > $log 2>&1
git -C /repo worktree add -q --detach $wt HEAD || exit 9
cd $wt
export PYTHONPATH=$wt/src XPM_WORKDIR=$R/cw${NN}_${K:-1}
unset XPM_VERIF
demo=$out/demo$K.py; patch=$out/patch$K.diff
run_demo() { if grep -q "def test_" $demo && ! grep -q "__main__" $demo; then timeout 300 /venv/bin/python -m pytest -q -p no:cacheprovider $demo; else timeout 300 /venv/bin/python $demo; fi; }
echo "== demo without patch"; run_demo; r0=$?
git apply $patch || { echo "APPLY FAILED"; }
echo "== demo with patch"; run_demo; r1=$?
echo "== suite with patch"; timeout 1500 /venv/bin/python -m pytest -q -p no:cacheprovider --timeout=900 2>&1 | tail -8
echo "RESULT NN=$NN k=${K:-1} without=$r0 with=$r1"
cd /; git -C /repo worktree remove --force $wt; rm -rf $R/cw${NN}_${K:-1}
