#!/venv/bin/python
"""Builds /verif/seeded/<Cnn>-w2-<k>/ from the second wave of sub-agent deliveries (/tmp/seed2/out/NN/patch{,2,3}.diff,
written against /repo HEAD): patch.diff, demo.py, notes.md, meta.json (confirmation from /tmp/seed2/confirm, detection
from detection.txt written by tools/detect_matrix.sh).  usage: mkseeded2.py [NN ...]"""
import json
import re
import shutil
import subprocess
import sys
from pathlib import Path

import os

WAVE = int(os.environ.get("WAVE", "2"))
ROOT = Path(f"/tmp/seed{WAVE}")
OUT = ROOT / "out"
DEST = Path("/verif/seeded")


def first_par(text):
    lines = [l.strip() for l in text.splitlines()]
    body = [l for l in lines if l and not l.startswith("#")]
    return " ".join(body[:3])[:400]


def main(nns):
    head = subprocess.run(["git", "-C", "/repo", "rev-parse", "--short", "HEAD"], capture_output=True, text=True).stdout.strip()
    for nn in nns:
        for k in ("1", "2", "3"):
            kk = "" if k == "1" else k
            src = OUT / nn
            patch = src / f"patch{kk}.diff"
            if not patch.exists():
                continue
            d = DEST / f"C{nn}-w{WAVE}-{k}"
            d.mkdir(parents=True, exist_ok=True)
            shutil.copy(patch, d / "patch.diff")
            for name, dst in ((f"demo{kk}.py", "demo.py"), (f"notes{kk}.md", "notes.md")):
                if (src / name).exists():
                    shutil.copy(src / name, d / dst)
            conf = ROOT / "confirm" / f"{nn}_{k}.log"
            ctext = conf.read_text() if conf.exists() else ""
            m = re.search(r"RESULT NN=\d+ k=\d+ without=(\d+) with=(\d+)", ctext)
            suite = re.findall(r"^(\d+ (?:passed|failed).*)$", ctext, re.M)
            old = json.loads((d / "meta.json").read_text()) if (d / "meta.json").exists() else {}
            files = sorted(set(re.findall(r"^\+\+\+ b/(\S+)", patch.read_text(), re.M)))
            meta = {
                "id": d.name,
                "property": f"C{nn}",
                "wave": WAVE,
                "files": files,
                "needs_to_manifest": old.get("needs_to_manifest") or first_par((src / f"notes{kk}.md").read_text() if (src / f"notes{kk}.md").exists() else ""),
                "remark": old.get("remark", ""),
                "written_against": head,
                "confirmed_independently": {
                    "how": "tools/confirm_seed2.sh: fresh worktree of /repo HEAD; demo without the patch, demo with the patch, full test-suite with the patch",
                    "demo_exit_without_patch": int(m.group(1)) if m else None,
                    "demo_exit_with_patch": int(m.group(2)) if m else None,
                    "test_suite_with_patch": suite[-1] if suite else None,
                },
            }
            (d / "meta.json").write_text(json.dumps(meta, indent=1))
            print(d.name, meta["confirmed_independently"]["demo_exit_without_patch"], meta["confirmed_independently"]["demo_exit_with_patch"], meta["confirmed_independently"]["test_suite_with_patch"])


if __name__ == "__main__":
    main(sys.argv[1:] or sorted(p.name for p in OUT.iterdir()))
