#!/bin/bash
# usage: confirm_seed.sh <NN> <k>   (k = "" or 2) -- independent confirmation of a seeded change at the commit it was written for
NN=$1; K=$2
out=/tmp/seed/out/$NN; wt=/tmp/seed/c${NN}_${K:-1}; log=/tmp/seed/confirm/${NN}_${K:-1}.log
mkdir -p /tmp/seed/confirm; exec > $log 2>&1
base=$(git -C /tmp/seed/w$NN rev-parse HEAD)
git -C /repo worktree add -q --detach $wt $base || exit 9
cd $wt
export PYTHONPATH=$wt/src XPM_WORKDIR=/tmp/seed/cw${NN}_${K:-1}
demo=$out/demo$K.py; patch=$out/patch$K.diff
run_demo() { if grep -q "def test_" $demo && ! grep -q "__main__" $demo; then timeout 300 /venv/bin/python -m pytest -q -p no:cacheprovider $demo; else timeout 300 /venv/bin/python $demo; fi; }
echo "== demo without patch"; run_demo; r0=$?
git apply $patch || { echo "APPLY FAILED"; r_apply=1; }
echo "== demo with patch"; run_demo; r1=$?
echo "== suite with patch"; timeout 1500 /venv/bin/python -m pytest -q -p no:cacheprovider --timeout=900 2>&1 | tail -8; 
echo "RESULT NN=$NN k=${K:-1} without=$r0 with=$r1"
cd /; git -C /repo worktree remove --force $wt; rm -rf /tmp/seed/cw${NN}_${K:-1}
