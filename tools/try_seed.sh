#!/bin/bash
# usage: try_seed.sh <patch> <prop> [<prop>...]   -- applies a seeded change to /repo, runs the quick checks, reverts
patch=$1; shift
cd /repo || exit 2
if ! git apply --check "$patch" 2>/dev/null; then
  if ! git apply --3way --check "$patch" 2>/dev/null; then echo "PATCH DOES NOT APPLY: $patch"; exit 3; fi
fi
git apply "$patch" 2>/dev/null || git apply --3way "$patch"
for p in "$@"; do
  echo "=== $p on $(basename $(dirname $patch))/$(basename $patch)"
  /verif/check $p --tier ${TIER:-quick} 2>&1 | grep -E "VIOLATION|KNOWN|OK property|MACHINERY|violation " | head -6
  echo "exit=${PIPESTATUS[0]}"
done
git -C /repo checkout -- . ; git -C /repo status --short | head -3
