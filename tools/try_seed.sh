#!/bin/bash
# usage: try_seed.sh <patch> <prop> [<prop>...]   -- applies a seeded change to /repo, runs the quick checks, reverts
patch=$1; shift
cd /repo || exit 2



/verif/tools/apply_seed.sh "$patch" || exit 3
for p in "$@"; do
  echo "=== $p on $(basename $(dirname $patch))/$(basename $patch)"
  /verif/check $p --tier ${TIER:-quick} 2>&1 | grep -E "VIOLATION|KNOWN|OK property|MACHINERY|violation " | head -6
  echo "exit=${PIPESTATUS[0]}"
done
/verif/tools/unapply_seed.sh
