#!/venv/bin/python
"""Computes golden/identifiers.json with the code of the PINNED commit (a scratch worktree outside /repo and /verif,
removed afterwards): identifiers of a fixed corpus of configuration graphs, unsealed and cache-free."""
import json
import subprocess
import sys
import shutil

PINNED = "406b0b9"
WT = "/tmp/xv_golden_wt"
code = r'''
import sys, types, json, random, logging, warnings
warnings.filterwarnings("ignore"); logging.disable(logging.CRITICAL)
m = types.ModuleType("experimaestro.utils.verif"); m.ACTIVE = False; m.tap = None
import experimaestro.utils
sys.modules["experimaestro.utils.verif"] = m; experimaestro.utils.verif = m
from xv import cfgreal as R
rng = random.Random(424242)
out = []
for i in range(400):
    g = R.rand_graph(rng, rng.choice([1, 2, 3, 3, 4]))
    objs = R.build(g, random.Random(3), shuffle_dicts=True)
    out.append([g, {n: [o.__xpm__.raw_identifier.all.hex(), o.__xpm__.full_identifier.all.hex()] for n, o in objs.items()}])
print("GOLD" + json.dumps(out))
'''
subprocess.run(["git", "-C", "/repo", "worktree", "add", "-q", "--detach", WT, PINNED], check=True)
try:
    p = subprocess.run(["/venv/bin/python", "-W", "ignore", "-c", code], env={"PYTHONPATH": f"{WT}/src:/verif", "PATH": "/usr/bin:/bin", "PYTHONHASHSEED": "7"},
                       capture_output=True, text=True, cwd="/verif")
    line = next(l for l in p.stdout.splitlines() if l.startswith("GOLD"))
    open("/verif/golden/identifiers.json", "w").write(line[4:])
    print("golden entries:", len(json.loads(line[4:])))
finally:
    subprocess.run(["git", "-C", "/repo", "worktree", "remove", "--force", WT])
    shutil.rmtree(WT, ignore_errors=True)
