#!/bin/bash
cd /repo && git reset -q && git checkout -- . && git clean -fdq src >/dev/null; git status --short | head -3
