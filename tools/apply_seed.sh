#!/bin/bash
# apply a seeded patch to /repo's working tree only (never staged, never committed)
cd /repo || exit 2
git apply "$1" 2>/dev/null && exit 0
git apply --3way "$1" 2>/dev/null && { git reset -q; exit 0; }
patch -p1 --dry-run -F3 < "$1" >/dev/null 2>&1 && { patch -p1 -F3 -s < "$1"; exit 0; }
echo "NOAPPLY $1"; exit 3
