#!/venv/bin/python
"""Builds /verif/seeded/<id>/ from the sub-agents' deliveries (/tmp/seed/out), the independent confirmation logs
(/tmp/seed/confirm) and the detection matrix (/tmp/seed/detect): patch rebased on the current /repo HEAD, the
demonstration, and meta.json."""
import json
import re
import shutil
import subprocess
from pathlib import Path

OUT = Path("/tmp/seed/out")
DEST = Path("/verif/seeded")
WT = "/tmp/xv_seed_wt"

NEEDS = {
    "01_1": ("C01", "per-computation memo of shared sub-configurations guarded by the mistyped has_loops flag: a cyclic graph whose cycle node is shared at two depths", "benign since the has_loops repair (F1): the guard now works; kept for the record"),
    "01_2": ("C01", "pre-task identifiers hashed in set order: >= 2 distinct pre-tasks and two processes with different PYTHONHASHSEED", ""),
    "02_1": ("C02", "falsy non-None default (0, '', [], False) treated as 'no default': identifiers of existing configurations change when such a parameter is added / compared across versions", ""),
    "02_2": ("C02", "generated non-Meta parameters hashed once sealing has stored them: identifier differs before/after seal and when a generated parameter is added", ""),
    "03_1": ("C03", "raw identifier cached on any sealed loop-free configuration inside compute(): a task whose task_outputs returns one of its own parameters (dep(self.x)); the producing task never enters the identifier", "adapted to has_loops after F1"),
    "03_2": ("C03", "optional parameter with a non-None default explicitly set to None shares the identifier of the default", ""),
    "04_1": ("C04", "asymmetric unsatisfied counter: job + token dependency >= 2 units, token partially then fully released while the upstream job still runs", ""),
    "04_2": ("C04", "adopted job (exit code unknown) taken as DONE: scheduler killed while the upstream job runs, restart re-attaches, job then fails, dependent launched", ""),
    "05_1": ("C05", "cleanup unlinks the job lock file: a waiter on the old inode and a later arrival on a fresh file both hold 'the' lock (3 launches, the first one failing)", ""),
    "05_2": ("C05", "done marker checked before waiting for the lock: two launches pending before the first success", ""),
    "06_1": ("C06", "token notification only wakes the first waiters in WAIT state: contention + a waiter that cannot use the token", ""),
    "06_2": ("C06", "dependency failure guard `state != ERROR`: a job DONE through an existing marker whose upstream is re-run and fails later turns ERROR", ""),
    "07_1": ("C07", "TypeError in the tail of aio_submit for jobs that never started: chain of depth >= 2 below a failure, the second-level dependent waits for ever", ""),
    "07_2": ("C07", "READY 'if no dependency is in WAIT': a dependent submitted after its upstream has failed is launched", ""),
    "08_1": ("C08", "TokenFile.create moved out of the inter-process lock: two processes, the second recounts between the first's decision and its file creation", "rebased by hand over the token hooks"),
    "08_2": ("C08", "re-check under the lock removed in on_created: the scheduler's own token file is treated as foreign and deleted by its own reclaim thread", "rebased by hand over the token hooks"),
    "09_1": ("C09", "dependencies in OK state pruned from token.dependents: a job with two dependencies whose start is aborted is never re-checked", ""),
    "09_2": ("C09", "on_deleted only notifies when the token was exhausted: capacity held by orphans comes back in several steps, a job asking for more than one unit is never told", ""),
    "10_1": ("C10", "signal before the task started -> sys.exit(0) inside the try: .done touched although the body never ran (signal while waiting for the lock)", ""),
    "10_2": ("C10", "done marker checked before the lock loop: overlapping launches re-run the body", ""),
    "11_1": ("C11", "done marker checked before acquiring the lock: scheduler dies between spawn and pid file, restart relaunches while the orphan still runs", ""),
    "11_2": ("C11", "dict parameters hashed in hash(key) order: job directory differs in the restarted process (other PYTHONHASHSEED), running job not adopted", ""),
    "12_1": ("C12", "object keys = identifier hex instead of id(): distinct sub-configurations differing only in ignored parameters are merged when written", ""),
    "12_2": ("C12", "task link skipped when a loaded configuration is written again (second generation round trip)", ""),
    "13_1": ("C13", "pre-task de-duplication `break` instead of `continue`: a pre-task attached at two nodes followed by a new one at the later node is never executed", ""),
    "13_2": ("C13", "constructed mark stored under id(stub): shared ObjectStore across instance() calls re-runs post-init and pre-tasks", ""),
    "14_1": ("C14", "Sealer stops at configurations produced by another sealed task: a fresh wrapper returned by task_outputs stays unsealed when a consumer is submitted", ""),
    "14_2": ("C14", "identifiers stored while unsealed: identifier requested before sealing, then a legitimate assignment, then submission keeps the stale identifier", ""),
    "15_1": ("C15", "validate() only recurses under required parameters: a required (non hashed) value missing below an optional child is accepted by submit", ""),
    "15_2": ("C15", "ArrayType returns the original list when equal: numeric coercions inside lists are dropped (List[int] <- [1.0])", ""),
    "16_1": ("C16", "jobs.bak replaced instead of merged: complete {A,B}, abort {A}, then a third run: B is reported as orphan", ""),
    "16_2": ("C16", "pid written into the lock file releases the POSIX lock: a second process enters the same experiment", ""),
    "17_1": ("C17", "currentpath() cache not cleared on pop: a holder whose last walked child has a generated path gets the child's folder", ""),
    "17_2": ("C17", "pre- and init-task lists share the key __tasks__: pre_tasks[i] and init_tasks[i] get the same generated path", ""),
    "18_1": ("C18", "__mul__ forgets the duration: (duration & gpu & cpu) * 2 matches a host with a shorter max_duration", ""),
    "18_2": ("C18", "parse() cached + in-place & : a cached parse result is rewritten by later combinations", "benign since the & repair (F8b): the left operand is deep-copied; kept for the record"),
    "19_1": ("C19", "backup glob consumed before use in orphans: directories referenced only by jobs.bak are deleted by --clean", ""),
    "19_2": ("C19", "and/or chains evaluated with the last operator: filters of >= 3 terms mixing and / or", ""),
    "20_1": ("C20", "symlink pre-pass folded into the main loop of fix_deprecated: --fix then --fix --cleanup loses previously linked jobs depending on directory order", ""),
    "20_2": ("C20", "params.json rewritten in place: a fault (ENOSPC) during the rewrite truncates it and later repairs crash", "NOT detected: needs fault injection inside fix_deprecated (I/O error in json.dump), which no engine provides"),
}


def sh(*a, **kw):
    return subprocess.run(a, capture_output=True, text=True, **kw)


def main():
    head = sh("git", "-C", "/repo", "rev-parse", "--short", "HEAD").stdout.strip()
    sh("git", "-C", "/repo", "worktree", "remove", "--force", WT)
    shutil.rmtree(WT, ignore_errors=True)
    sh("git", "-C", "/repo", "worktree", "add", "-q", "--detach", WT, "HEAD")
    DEST.mkdir(exist_ok=True)
    index = []
    try:
        for key, (prop, needs, remark) in sorted(NEEDS.items()):
            nn, k = key.split("_")
            kk = "" if k == "1" else k
            src = OUT / nn
            d = DEST / f"{prop}-seed{nn}-{k}"
            d.mkdir(exist_ok=True)
            cands = [src / f"patch{kk}_adapted.diff", src / f"patch{kk}.diff", Path(f"/tmp/seed/rebased/{key}.diff")]
            applied = None
            for c in cands:
                if not c.exists():
                    continue
                sh("git", "-C", WT, "checkout", "--", ".")
                if sh("git", "-C", WT, "apply", str(c)).returncode == 0:
                    applied = c
                    break
                r = subprocess.run(f"cd {WT} && patch -p1 -F3 -s < {c}", shell=True, capture_output=True)
                if r.returncode == 0:
                    applied = c
                    break
                sh("git", "-C", WT, "checkout", "--", ".")
                subprocess.run(f"cd {WT} && git clean -fdq", shell=True)
            if applied:
                (d / "patch.diff").write_text(sh("git", "-C", WT, "diff").stdout)
            sh("git", "-C", WT, "checkout", "--", ".")
            subprocess.run(f"cd {WT} && git clean -fdq", shell=True)
            if (src / f"patch{kk}.diff").exists():
                shutil.copy(src / f"patch{kk}.diff", d / "patch.orig.diff")
            for name, dst in ((f"demo{kk}.py", "demo.py"), (f"notes{kk}.md", "notes.md")):
                if (src / name).exists():
                    shutil.copy(src / name, d / dst)
            conf = Path(f"/tmp/seed/confirm/{nn}_{k}.log")
            ctext = conf.read_text() if conf.exists() else ""
            m = re.search(r"RESULT NN=\d+ k=\d+ without=(\d+) with=(\d+)", ctext)
            suite = re.findall(r"^(\d+ (?:passed|failed).*)$", ctext, re.M)
            det = Path(f"/tmp/seed/detect/{key}.txt")
            dtext = det.read_text() if det.exists() else ""
            detected = sorted(set(re.findall(r"VIOLATION property=(C\d+)", dtext)))
            missed = sorted(set(re.findall(r"\[(C\d+)\] OK property", dtext)))
            meta = {
                "id": d.name,
                "property": prop,
                "needs_to_manifest": needs,
                "remark": remark,
                "written_against": "pinned commit 406b0b9" if nn in ("01", "04", "05", "06", "08", "09", "10", "12", "14", "16") else "HEAD at the time (hooks + scheduler fixes)",
                "patch_rebased_on": head if applied else None,
                "confirmed_independently": {
                    "how": "tools/confirm_seed.sh: fresh worktree at the commit the change was written for; demo without the patch, demo with "
                           "the patch, full test-suite with the patch",
                    "demo_exit_without_patch": int(m.group(1)) if m else None,
                    "demo_exit_with_patch": int(m.group(2)) if m else None,
                    "test_suite_with_patch": suite[-1] if suite else None,
                },
                "checks_run": {"detected_by": detected, "not_detected_by": missed,
                               "how": "tools/detect_matrix.sh (patch applied to a scratch worktree, ./check <prop> --tier quick with XV_REPO_SRC)"},
            }
            (d / "meta.json").write_text(json.dumps(meta, indent=1))
            index.append((d.name, bool(applied), detected, missed))
    finally:
        sh("git", "-C", "/repo", "worktree", "remove", "--force", WT)
        shutil.rmtree(WT, ignore_errors=True)
    for row in index:
        print(row)


if __name__ == "__main__":
    main()
