#!/bin/bash
# usage: with_seed.sh <seeded-id> <command...>   -- runs the command with XV_REPO_SRC pointing at a scratch worktree of
# /repo HEAD with the seeded change applied (never touches /repo); the worktree is removed afterwards
id=$1; shift
WT=/tmp/xv_ws_$$
git -C /repo worktree add -q --detach $WT HEAD || exit 2
( cd $WT && git apply /verif/seeded/$id/patch.diff ) || { echo NOAPPLY; git -C /repo worktree remove --force $WT; exit 3; }
XV_REPO_SRC=$WT/src "$@"; rc=$?
git -C /repo worktree remove --force $WT
exit $rc
