#!/bin/bash
# usage: detect_seed4.sh <patch.diff> <prop> <tag>  -- the quick check of <prop> against a scratch worktree of /repo HEAD with the patch
patch=$1; prop=$2; tag=$3
WT=/tmp/seed4/detect_$tag
git -C /repo worktree add -q --detach $WT HEAD || exit 2
( cd $WT && git apply $patch ) || { echo NOAPPLY; git -C /repo worktree remove --force $WT; exit 3; }
cd /verif
log=$(XV_REPO_SRC=$WT/src timeout 2400 ./check $prop --tier quick 2>&1); rc=$?
echo "$prop exit=$rc $(echo "$log" | grep -m1 -E "^VIOLATION|^OK property|^MACHINERY" | cut -c1-160)"
echo "$log" | grep "^  violation" | cut -c1-400 | head -4
git -C /repo worktree remove --force $WT
git -C /verif checkout -q evidence 2>/dev/null; rm -rf /verif/replays
exit $rc
