#!/bin/bash
# usage: detect_matrix.sh [<seeded-id>:<props> ...]   (default: every /verif/seeded/*/ with its own property)
# Applies each seeded change (patch.diff, rebased on HEAD) to a scratch worktree of /repo (never to /repo), runs the
# quick checks of the listed properties against it (XV_REPO_SRC) and records exit status + first violation line in
# /verif/seeded/<id>/detection.txt
WT=/tmp/xv_detect_wt
git -C /repo worktree remove --force $WT 2>/dev/null; rm -rf $WT
git -C /repo worktree add -q --detach $WT HEAD || exit 2
specs=("$@")
if [ ${#specs[@]} -eq 0 ]; then
  for d in /verif/seeded/*/; do id=$(basename $d); specs+=("$id:${id%%-*}"); done
fi
for spec in "${specs[@]}"; do
  id=${spec%%:*}; props=${spec#*:}
  d=/verif/seeded/$id; out=$d/detection.txt
  [ -f $d/patch.diff ] || continue
  cd $WT && git checkout -q -- . && git clean -fdq
  echo "# HEAD $(git -C /repo rev-parse --short HEAD), $(date -u +%FT%TZ)" > $out
  if git apply $d/patch.diff 2>/dev/null; then
    for p in $props; do
      log=$(cd /verif && XV_REPO_SRC=$WT/src timeout 1800 ./check $p --tier quick 2>&1); rc=$?
      first=$(echo "$log" | grep -m1 "^  violation" | cut -c1-300)
      echo "$p exit=$rc $(echo "$log" | grep -m1 -E "^VIOLATION|^OK property|^MACHINERY" | cut -c1-120) | $first" >> $out
    done
  else
    echo "NOAPPLY" >> $out
  fi
done
cd / && git -C /repo worktree remove --force $WT; rm -rf $WT
touch /tmp/seed/matrix2_done
