#!/bin/bash
# usage: detect_matrix.sh "<NN>:<k>:<props>" ...   e.g. "06:1:C06 C09"
# Applies each seeded change to a scratch worktree of /repo (never to /repo), runs the quick checks of the listed
# properties against it (XV_REPO_SRC), records verdicts and the patch rebased on HEAD.
WT=/tmp/xv_detect_wt
mkdir -p /tmp/seed/detect /tmp/seed/rebased
git -C /repo worktree remove --force $WT 2>/dev/null; rm -rf $WT
git -C /repo worktree add -q --detach $WT HEAD || exit 2
for spec in "$@"; do
  IFS=: read NN K PROPS <<< "$spec"
  kk=$K; [ "$K" = "1" ] && kk=""
  patch=/tmp/seed/out/$NN/patch$kk.diff
  [ -f /tmp/seed/out/$NN/patch${kk}_adapted.diff ] && patch=/tmp/seed/out/$NN/patch${kk}_adapted.diff
  out=/tmp/seed/detect/${NN}_$K.txt; : > $out
  cd $WT && git checkout -q -- . && git clean -fdq
  if git apply "$patch" 2>/dev/null || (git apply --3way "$patch" 2>/dev/null && git reset -q) || patch -p1 -F3 -s < "$patch" 2>/dev/null; then
    git diff > /tmp/seed/rebased/${NN}_$K.diff
    for p in $PROPS; do
      r=$(cd /verif && XV_REPO_SRC=$WT/src timeout 1500 ./check $p --tier quick 2>&1 | grep -E "^VIOLATION|^OK property|^MACHINERY|^  violation" | head -4 | cut -c1-260)
      echo "[$p] $r" >> $out
    done
  else
    echo "NOAPPLY" >> $out
  fi
done
cd / && git -C /repo worktree remove --force $WT; rm -rf $WT
echo DONE >> /tmp/seed/detect/_done
