#!/bin/bash
# usage: confirm_seed4.sh <out-dir of the agent> <tag>  -- independent confirmation of a wave-4 seeded change in a fresh worktree of
# /repo HEAD: the demonstration passes without the change, fails with it, the repository's suite passes with it
out=$1; tag=$2; R=/tmp/seed4
wt=$R/confirm_$tag; log=$R/confirm_$tag.log
exec > $log 2>&1
git -C /repo worktree add -q --detach $wt HEAD || exit 9
cd $wt
export PYTHONPATH=$wt/src XPM_WORKDIR=$R/cw_$tag
unset XPM_VERIF; mkdir -p $XPM_WORKDIR
cp -r $out $R/demo_$tag; demo=$R/demo_$tag/demo.py; patch=$out/patch.diff
run_demo() { ( cd $R/demo_$tag; if grep -q "def test_" $demo && ! grep -q "__main__" $demo; then timeout 300 /venv/bin/python -m pytest -q -p no:cacheprovider $demo; else timeout 300 /venv/bin/python $demo; fi ); }
echo "== demo without patch"; run_demo; r0=$?
git apply $patch || { echo "APPLY FAILED"; }
echo "== demo with patch"; run_demo; r1=$?
echo "== suite with patch"; timeout 1500 /venv/bin/python -m pytest -q -p no:cacheprovider --timeout=900 2>&1 | tail -8
echo "RESULT tag=$tag without=$r0 with=$r1"
cd /; git -C /repo worktree remove --force $wt; rm -rf $R/cw_$tag $R/demo_$tag
