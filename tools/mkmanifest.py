#!/usr/bin/env python3
"""Generates /verif/MANIFEST.json from the table below (single source of truth for the interface)"""
import json
import subprocess
from pathlib import Path

VERIF = Path(__file__).resolve().parent.parent
props = [json.loads(l) for l in (VERIF / "properties.jsonl").read_text().splitlines() if l.strip()]

SCHED_NOTE = ("Trusted: the E1 engine's simulation of job processes (TaskRunner protocol) and of helper-thread completion; "
              "asyncio's FIFO callback order; bounded workloads (<=4 jobs, <=2 tokens) for the exhaustive TLC configs.")

CHECKS = {
    "C04": dict(category="model_checking", engine="E1", design="5 (C04), 3.1, 4.3",
                technique="TLA+ XpmScheduler: TLC exhaustive (NoEarlyLaunch) + trace validation of real scheduler executions (E1)",
                text="TLC checks NoEarlyLaunch on every interleaving of the scheduler model for all DAGs of the dag family; the real "
                     "scheduler is run under the deterministic engine on real task graphs (8 ways of embedding an upstream task), every "
                     "recorded step must be a step of the specification with equal projected state and the action property is evaluated on "
                     "every recorded step. Embeddings now include a task held by a Meta parameter and an output handed on by a second task; dependents submitted after one of two upstream jobs has finished; nested lists / lists of dicts of upstream tasks; real signals to a real experiment process with a dependent waiting (E2-restart signal cases).", note=SCHED_NOTE),
    "C06": dict(category="model_checking", engine="E1", design="5 (C06), 3.1, 4.1, 4.3",
                technique="TLA+ XpmScheduler: TLC exhaustive (final-state invariants, deadlock freedom, liveness) + trace validation (E1)",
                text="TLC explores every interleaving of loop callbacks, helper threads, process exits and main-thread calls for small DAG/token/"
                     "re-submission workloads (invariants TruthfulFinal, FinalAbsorbing, ResultIsFinal, WaitOnlyWhenAllFinal, deadlock = hang); "
                     "thousands of real executions (systematic for tiny workloads, seeded random otherwise) are validated step by step against "
                     "the specification and every execution must end in the model's GoodEnd. The specification also covers experiment.stop() (SIGINT during the wait: Sigint / StopStep / WaitReturnStopped, family stop) and job processes killed from outside (no marker, stale pid file); priority ('starvation') schedules stretch the window of every kind of pending step; a hang of the real scheduler is an outcome, checked by a self-test. Real-process halves: SIGINT / SIGTERM / SIGHUP sent to a real experiment process with running jobs (E2-restart) must leave truthful final states; the file token half (XpmTokenFS, E2-token) runs too, including the order of dependency registration and readiness check at submission (MC_TokenFS_addfirst holds, MC_TokenFS_checkfirst loses a wake-up; the hooked order of the real code must be the first); the token declared again with a larger total by another process while a job waits for it (Redeclare / OnInfo, MC_TokenFS_retotal*, scenarios enlarged, enlarged_while_held): the waiting job must be told.", note=SCHED_NOTE),
    "C07": dict(category="model_checking", engine="E1", design="5 (C07), 3.1",
                technique="TLA+ XpmScheduler: TLC exhaustive over failing subsets + trace validation (E1)",
                text="All failing subsets of chain/diamond DAGs are explored exhaustively by TLC (dependents cancelled, independents run, exit "
                     "status); real executions with failing processes are validated against the specification. Killed job processes (no marker) and adopted jobs that die without marker are part of the model and of the plans; leaving the experiment early (counter mismatch) counts for this property; at the end every job whose upstream jobs succeeded must have run. Start failures (the launcher raises) and memory-killed processes are plans; a livelock of the real scheduler is an outcome. Real signals to a real experiment process (E2-restart signal cases). A second experiment of the same program that uses outputs of the first one without submitting them again (NewXp, plans reuse-*): a failure that is only by dependency still makes the experiment fail, a failure of the earlier experiment does not.", note=SCHED_NOTE),
    "C08": dict(category="model_checking", engine="E1", design="5 (C08), 3.1, 3.3",
                technique="TLA+ XpmScheduler (in-process token) and XpmTokenFS (file token, several processes): TLC exhaustive Capacity / MutualExclusion + trace validation of E1 executions and of real multi-process token logs (E2-token)",
                text="Capacity / conservation invariants checked by TLC for all interleavings with heterogeneous requests; real executions with "
                     "the real ProcessCounterToken validated step by step (available and held amounts are part of the compared state). "
                     "XpmTokenFS models the file token at the grain of ipc lock / recount / create-open / create-write / observer callbacks / "
                     "reclaim threads (4M states, 2 processes); 2-3 real processes sharing one token directory run scripted scenarios "
                     "(contention, acquisition attempted while the other is inside the file creation, deaths) and their hook event logs "
                     "must be behaviours of the model (every file operation inside the critical section, logged counts = recounted files). A job that ends, gives its token back and comes back under the same token file name asking for more while another scheduler is suspended (scenario larger_again; Resubmit, JobLocked and FixF23 in the model; MC_TokenFS_resubmit holds, MC_TokenFS_resubmit_F23 shows the stale reclaim): RunningHoldFile, RunningUnderCapacity. The same job taking the token again before the deletion event of its former token file is handled (own release or foreign reclaim during an aborted start; the lock a process holds does not stop its own threads: JobLockedAgainst, Own, FixF28; scenarios again_stale_event / again_stale_foreign with the pause point evt.deleted; MC_TokenFS_resubmit_F28 shows the job running without its token file). token.info declared again with a lower total inside the start window of another scheduler (scenario shrunk_at_start). A trace rejected at a recount overlapped by the announced deletion of a reclaim thread is validated with the other order as well. (Random walks of two schedulers over the life of a token exist as an exploratory driver, XV_RANDOM_WALKS=<n>; they are not part of the registered check: see DESIGN I.6.)",
                note=SCHED_NOTE + " E2-token: mini scheduler processes drive the real CounterToken; jobs are stand-ins holding the run lock; interleavings are scripted with pause points, not exhaustive."),
    "C09": dict(category="model_checking", engine="E1", design="5 (C09), 3.1, 3.3",
                technique="TLA+ XpmScheduler: TLC deadlock freedom + IdleTokenIsFull + liveness; TLA+ XpmTokenFS: ObserversSurvive / Informed / ReclaimOnlyAfterEnd by TLC; trace validation of E1 executions (aborted starts) and of multi-process token logs with scheduler deaths (E2-token)",
                text="Every way a job ends (success, failure, aborted start) returns its tokens: checked exhaustively on the model and on real "
                     "executions whose End event requires the model's terminal predicate (tokens full, nothing waiting). Death of a scheduler "
                     "followed by the job's own end, death in the middle of the token-file creation, partial returns of capacity: scripted on "
                     "real processes; at every quiescent point of the log a waiting job whose request fits must have been told, and the token "
                     "files of ended jobs must be gone. Lost wake-ups inside the window of an aborted start are searched with starvation schedules and 5x more schedules on contention plans; the quiescent-point clauses of XpmTokenFS_Trace (told when it fits, files of ended jobs gone) are evaluated after waiting for events logged after their trigger. token.info declared again (see C06) and left truncated by a dead writer. XpmLazyTable: the table of process handlers built at first use by two reclaim threads at once (scenario two_killed_orphans; TLC on both designs; the counterexample's interleaving forced on the real Process.handler: F24). The owner's release raced by the reclaim thread of another scheduler between the test and the removal of the token file (RelCheck / RelUnlink, FixF26; scenario release_raced with the pause point delete.checked; MC_TokenFS_F26 shows the lost notification, MC_TokenFS_raced (thorough) every placement). A scheduler that starts while the token file of an ended job is still there (StartCount / StartWatch, FixF27, wl.late; scenario late_start_ended with the pause point init.counted and the event tok.watching; MC_TokenFS_F27 shows the unit lost for the newcomer, MC_TokenFS_latestart (thorough) every moment of the start). A release that finds its token file already removed by another scheduler while a job of the same scheduler waits (scenario missing_at_release).", note=SCHED_NOTE + " Liveness across processes is checked at scripted quiescent points only."),
    "C05": dict(category="model_checking", engine="E1+E2", design="5 (C05), 3.1, 3.2",
                technique="TLA+ XpmScheduler (registry, done markers, restart) + XpmJobDir (competing launches): TLC exhaustive + trace validation of E1 executions and of real-process races (E2)",
                text="Registry de-duplication, 'never launched again when done' and re-submission are checked by TLC on the scheduler model and on "
                     "real scheduler executions (duplicates at every position, later experiments, removed markers); 'the body never runs twice at "
                     "once / again after success' is checked by TLC on the job-directory model (2-3 competing launches, signals anywhere) and on "
                     "scripted races of 2-3 real job processes whose histories must be behaviours of the model. The first launch is preempted before each of its statements while a second launch arrives (every 4th statement quick, every statement thorough): a lock released before the success marker is written is rejected by the model; a second job created for a configuration that succeeded and never failed is reported. XpmAdopt: the look-up of a job left by an earlier run at the grain of the scheduler's accesses (marker, pid file, process table, wait, marker again) against the last steps of that job; every terminal behaviour exported by TLC (463, with the orphan running, suspended, already ended, or the job in the hands of another scheduler that is writing its pid file; thorough: also all 553 placements) is replayed on the real scheduler with its accesses intercepted and a real non-child process as the orphan: never launched again when its success marker was there, never an exception (F22, F25). Duplicates submitted while a job is being adopted are enumerated systematically (plan kill-restart-dup).",
                note=SCHED_NOTE + " E2 races are scripted (holder in body, waiter blocked on the lock, third arrival), not exhaustive at instruction level."),
    "C10": dict(category="fault_enumeration", engine="E2+E1", design="5 (C10), 3.2, 4.4",
                technique="TLA+ XpmJobDir: TLC exhaustive over signal x statement; fault enumeration signal x executed line of the real TaskRunner, histories validated by TLC (silent-step trace spec)",
                text="Every k-th (quick) / every (thorough) executed line of run.py and of the task body is used as the instant of SIGKILL, SIGTERM "
                     "and SIGINT of a real generated job script (plus failing body, pre-existing .failed/.done, relaunches, competing launches); the "
                     "observed exit status, markers, lock state and body begin/end records of each history must be explained by a behaviour of "
                     "XpmJobDir, whose invariants (DoneOnlyIfBodyCompleted, HandledSignalInBody, NoPidAfterOwnEnd, LockHolderAlive) TLC "
                     "checks exhaustively. Preemption of the job process before its k-th statement with a competing launch; a job started with SIGINT ignored (nohup) that receives a signal in its body must act on it before a deadline; the second failure-marker write of a handled signal is a model step. Task bodies that fork once or repeatedly while the signal arrives (the handler must end the process even where exceptions are swallowed: F21, MC_JobDir_F21 shows the defect on the model); the process preempted before each statement of its signal handler while a second launch waits for the lock; the scheduler's half of the protocol (run lock held over spawn and pid file, start failures, killed processes) is checked on real scheduler executions under E1 (clause world).",
                note="Trusted: kernel semantics of fcntl locks / signals; line granularity of sys.settrace for the fault position; the harness plays the launcher side (lock, spawn, pid file, unlock)."),
    "C11": dict(category="fault_enumeration", engine="E1+E2", design="5 (C11), 3.1, 4.3",
                technique="TLA+ XpmScheduler with Die/Restart: TLC exhaustive (restart family) + fault sweep (scheduler death after every k-th event) over real scheduler executions validated by TLC",
                text="The scheduler model includes SIGKILL of the scheduler at any point and a restart on the same workspace (adoption through "
                     "the pid file, done markers, run lock held by surviving job processes); TLC checks body-exactly-once invariants exhaustively "
                     "and the real scheduler is killed after every k-th recorded event of base schedules (with long-running and short jobs), "
                     "restarted, and the whole two-run history validated against the specification. Real-process half (E2-restart): the real experiment process is SIGKILLed before the k-th statement (all threads) of scheduler/base.py, commandline.py, scriptbuilder.py, connectors/local.py with real gated job processes; the same experiment is run again (jobs still running or already ended) and must end with the same successes and every body executed exactly once. Ctrl-C during the wait followed by the same experiment again is part of the model (family stop). Jobs that can be adopted (pid file + live process, also when the orphan is suspended) must not be launched again; a job process killed from outside (code 9: no marker, stale pid file) is part of the model. XpmAdopt (see C05): the orphan ends between any two accesses of the restarted scheduler's look-up -- the decision must be DONE without launch when it succeeded, never an exception or a hang (F22); MC_Adopt_nosecond / MC_Adopt_unguarded show on the model what the second marker check and the guarded read protect. The token directory a dead scheduler left with a truncated token.info must be usable by the next one (scenario info_torn).",
                note=SCHED_NOTE + " Scheduler death is injected at loop-callback boundaries of the in-process engine; real-process kills are covered for the job side by C10."),
    "C01": dict(category="model_checking", engine="E3", design="5 (C01), 3.5, 4.2",
                technique="TLA+ XpmConfig/MC_Config: TLC exhaustive over seal/request/assign/submit histories (IdIsCanonical) + TLC-generated behaviours replayed on real objects with byte-level stream comparison + code->spec stream validation",
                text="The identifier byte stream (Enc), the caches and sealing are specified in TLA+; TLC checks on all 3-node pointer/list graphs "
                     "(cycles, sharing) x all histories that every identifier request returns the canonical cache-free value; TLC-generated "
                     "behaviours are replayed on real objects (tapped stream = specification stream byte for byte); random graphs are built in "
                     "several processes / PYTHONHASHSEEDs / construction orders, before and after sealing, and compared with the specification "
                     "and with identifiers pinned at the pinned commit. Schema: subclass without its own type identifier, nested containers of configurations, a configuration-valued default (copy untouched / edited in place / replaced: Config.__eq__ is modelled, FixF18), tagged values of another Python type; post-seal streams validated by TLC with the sealed set; submission with pre-/init tasks: the job directory is jobs/<type>/<SHA-256(raw, pre, init)> and no path generated during sealing lies outside it.",
                note="Trusted: SHA-256; the frozen schema spec/XpmSchema.tla (cross-checked against the live classes at every run); the golden corpus stands for 'earlier releases'."),
    "C02": dict(category="model_checking", engine="E3", design="5 (C02), 3.5",
                technique="TLA+ XpmConfig: Sig/Enc bijection checked by TLC on bounded families + edit-neighbour pairs of real graphs judged by TLC (equal signature => equal identifier) + schema evolution",
                text="TLC proves over bounded families that the stream fed to the hash is determined by the declarative signature (which omits "
                     "defaults, unset optionals, Meta/ignored, generated, meta-flagged children); pairs of real graphs one random edit apart are "
                     "sent to TLC, which decides whether the signature changed and requires equal identifiers when it did not; the frozen schema "
                     "is compared with what experimaestro derives; a second generation of the classes with extra defaulted/Meta/generated parameters must give equal identifiers.",
                note="Tags, dependencies, launcher and run mode are absent from the specification's stream by construction: any use of them by the code shows as a stream mismatch."),
    "C03": dict(category="model_checking", engine="E3", design="5 (C03), 3.5",
                technique="TLA+ XpmConfig: injectivity of Enc w.r.t. Sig by cardinality (TLC) + edit-neighbour pairs judged by TLC (different signature => different identifier)",
                text="TLC checks |{Enc}| = |{Sig}| = |{(Sig,Enc)}| over families of nested lists/dicts/strings and of structures (children in "
                     "lists, dicts, meta flags, cycles); thousands of pairs of real graphs one edit apart (element moved between neighbouring "
                     "containers, key renamed, swap, sibling move, enum/constant/class change, pre-task set) are checked: stream = Enc and "
                     "different signatures never share a SHA-256 identifier; histories with task submission check that the producing task enters the identifier. Producer graphs (a consumer of a configuration produced by a task that has pre-/init tasks): the pre-task set observed must be the specification's PreSet; written, loaded and identified again: a reloaded configuration keeps its identifier (task link included).",
                note="Domain as stated by the property (no control characters, dicts <= 2 levels); SHA-256 collision resistance trusted."),
    "C14": dict(category="model_checking", engine="E3", design="5 (C14), 3.5",
                technique="TLA+ MC_Config: SealClosed / SealedFrozen / IdIsCanonical by TLC + replay of TLC behaviours (assignment attempts interleaved with identifier requests) + sealed-set validation by TLC on real graphs",
                text="TLC checks that sealing is transitive (values, lists, dicts, pre/init tasks, task links) and that sealed nodes never change; "
                     "behaviours with assignment attempts before/after sealing and submission are replayed on real objects (rejections and "
                     "identifiers must match); after sealing real random graphs the set of sealed objects is validated against Reach(); producer/consumer "
                     "scenarios probe every mutation entry point on every configuration reachable from a submitted task. Tasks with both pre- and init tasks (their sub-configurations are sealed), containers given to the constructor stay the caller's (changing them after submission changes nothing), add_pretasks_from on sealed configurations.",
                note="In-place mutation of a stored list object (cfg.l.append) is outside the statement (not an assignment) and not checked."),
    "C17": dict(category="model_checking", engine="E3", design="5 (C17), 3.5",
                technique="TLA+ XpmConfig GenWalk: TLC checks inside/distinct over the structure family; generated paths of real sealed graphs validated by TLC; dry-run resubmission",
                text="The Sealer walk (first-visit DFS with context keys) is specified; TLC checks GenInside/GenDistinct on the structure family and "
                     "validates the generated path of every node of random real graphs (shared nodes, lists, dicts, pre/init tasks); the same "
                     "configuration submitted twice (dry run) must get equal, distinct paths inside the job directory. Parameters are assigned / given to the constructors in an order that is not their declaration order.",
                note="Domain: plain file names and plain dict keys."),
    "C20": dict(category="model_checking", engine="E3", design="5 (C20), 3.5, 3.4",
                technique="TLA+ XpmConfig: DeprecatedSame by TLC + class-swap pairs judged by TLC; TLA+ XpmDeprecated: all repair sequences by TLC, each replayed with the real fix_deprecated on real workspaces (absolute and relative paths); TLA+ XpmDeprecatedSteps: crash between any two file-system operations by TLC (refinement of the atomic repair, recovery), repairs killed before every statement / failing writes validated by TLC",
                text="Identifier half: TLC checks that swapping a deprecated class for its replacement at any position leaves Enc unchanged; real "
                     "graphs with K2Old/K2 swaps are validated. Repair half: XpmDeprecated models fix_deprecated (link / move / dangling links / "
                     "idempotence); every sequence of <= 3 repairs from every initial link state is replayed on workspaces filled before the "
                     "deprecation (a deprecated task class and a deprecated inner configuration), data files and reachability under the new "
                     "identifier are checked after every step, then the replacement is resubmitted. Crash half: XpmDeprecatedSteps gives the repair at "
                     "the grain of its file-system operations with a Crash action; TLC checks that a complete repair refines the atomic one from any "
                     "state crashes can leave and makes every job reachable; the real repair is killed before its k-th statement (every k in the "
                     "thorough tier) or a json.dump fails half-way, the tree is observed, repaired again and observed: both trees must be states "
                     "the specification reaches (a torn params.json is not one). A deprecated class whose replacement is itself deprecated; jobs submitted with init tasks; a job whose identifier did not change is left alone (FreshUntouched); job directories that cannot be loaded (parameter removed since) are bystanders the repair must skip.",
                note="Frozen schema states that K2Old hashes with K2's type identifier; cross-checked against the live classes."),
    "C12": dict(category="model_checking", engine="E3+E2", design="5 (C12), 3.5",
                technique="TLA+ XpmConfig DefsOrder: TLC invariants (each object once, children first) + definition lists of real graphs validated by TLC + round-trip isomorphism against the abstract graph + echo task runs",
                text="The definition list (params.json / state_dict / save) is specified as a post-order walk; TLC checks its invariants on the "
                     "structure family and validates the order produced by the real code for random graphs; every graph is written and loaded "
                     "three ways (and written again after loading) and compared node by node with the abstract graph (classes, every value incl. "
                     "ignored ones, meta flags, sharing, pre/init tasks, task links, identifiers recomputed); real job parameter files are "
                     "loaded and executed by experimaestro.run in a fresh interpreter and the values and tags seen by the task are compared. from_task_dir on a task directory whose parameter file defines other submitted tasks returns that directory's task. A failed job submitted again with other Meta values in a second real experiment process must observe its second configuration (parameter file rewritten before the launch).",
                note="The abstract graph of XpmConfig is the reference of the isomorphism; Path-typed data parameters (DataPath serialisation) are not covered."),
    "C13": dict(category="model_checking", engine="E3", design="5 (C13), 3.5",
                technique="TLA+ XpmConfig InstNodes/InstPre: TLC invariants + instantiated sets of real graphs validated by TLC + call-count/wiring comparison with the abstract graph",
                text="Which nodes are instantiated and which pre-tasks run is specified (FromPython walk); TLC validates the sets observed on "
                     "random real graphs (sharing, cycles, pre/init tasks at any node); wiring is compared object by object with the abstract "
                     "graph for instance() (also with a shared ObjectStore) and for parameter-file loading (post-init once after parameters, "
                     "pre-tasks once, init tasks once after the pre-tasks). Order of execution (init tasks after pre-tasks, in their order), distinct pre-tasks with equal parameters, a post-initialisation that fails once followed by a retry with the same object store.",
                note="The task body following the init tasks is checked through the echo runs of C12."),
    "C15": dict(category="model_checking", engine="E3", design="5 (C15), 3.6",
                technique="TLA+ XpmFunctions (types part): TLC enumerates type expressions x candidate values, checks StoredConforms / ConformingKept, and acts as reference evaluator for every assignment on real parameters (B3); submit-fails-fast scenarios",
                text="Assign(v,t) (coercions and rejections) is transcribed in TLA+; TLC checks on 4653 (type, value) pairs (types to depth 3, values "
                     "conforming or off by one constructor) that what is stored conforms and conforming values are kept; every pair is then "
                     "assigned to a real Param of that type and the raise / stored value / read-back compared. Ten graphs with a required value "
                     "missing at different depths (also below optional / ignored parameters, in pre-tasks) must be rejected by submit with no job registered. Negative and negative-integral floats, parameters with a value checker (coercion happens before the check and is kept), a loaded configuration whose class has gained a required parameter (version skew), required values outside the signature missing inside lists / dicts / nested lists.",
                note="Optional is only supported at the top level of a parameter type; Union types are outside the property's constructor list. Known finding: None element accepted inside containers of configurations."),
    "C16": dict(category="model_checking", engine="E3+E2", design="5 (C16), 3.4",
                technique="TLA+ XpmWorkspace: TLC exhaustive (IndexExact, BackupKept, NoPlanJobOrphaned) + TLC-generated histories replayed on a real workspace with the real experiment context manager and CLI; two-process lock race",
                text="Runs of experiments ending normally / by exception / by kill, interleaved with orphans and jobs clean, are explored by TLC "
                     "(3 jobs, 2 experiments); random behaviours of depth 6 are replayed with the real experiment object (real scheduler thread, "
                     "simulated instant job processes) and the symlink trees, backup directories and the output of `orphans` compared with the "
                     "specification after every action; two real processes contend for the same experiment. GENERATE_ONLY runs (touch neither index nor backup), experiment names that are substrings of one another, and a process waiting to enter a running experiment must not destroy the record of the plan the running process completes. The workspace is designated by an absolute path, by a path relative to the current directory or by settings whose path was overridden with a relative one (run-experiment --workspace --workdir); every index link must lead to its job directory. XpmOrphansRace (TLC + a TLAPS proof) for the listing order of `orphans`.",
                note="Job processes are simulated; the kill of the experiment process is simulated by abandoning the experiment object without running __exit__."),
    "C18": dict(category="model_checking", engine="E3", design="5 (C18), 3.6",
                technique="TLA+ XpmFunctions (match part): TLC checks MatchSound over requests x hosts and is the reference evaluator for match(), the request algebra, the text grammar and operand purity (B3)",
                text="Match / And / Mul / union order are transcribed in TLA+; TLC checks Match => Satisfies for 129 request expressions x 240 hosts "
                     "(unsorted GPU lists, min_memory, min_gpu, max_duration) and prints the expected result of every pair; the implementation is "
                     "evaluated on every pair, every combined request is compared with the specification's normal form, operands are "
                     "snapshotted before/after & and *, and the printed text of each expression (random whitespace) is parsed and compared, twice. Every spelling of a duration the grammar accepts (h, hours, d, days, with or without space). FindIn: the real LauncherRegistry with a generated launchers.py must return a launcher exactly when the specification says one of the hosts matches (cpu & cpu, mixed GPU requests).",
                note="humanfriendly's decimal sizes are trusted; GPU pairing is position-wise as in the code (sound, not complete)."),
    "C19": dict(category="model_checking", engine="E3", design="5 (C19), 3.6, 3.4",
                technique="TLA+ XpmFunctions (filter part) as enumerated oracle for createFilter + TLA+ XpmWorkspace histories with jobs clean / orphans replayed through the real CLI",
                text="Filter evaluation (=, in, not in, ~, and/or chains evaluated from the left) is transcribed; TLC enumerates 732 expressions x "
                     "128 tag/state/name assignments and the compiled filters are compared on all of them; `jobs clean` (filter, --experiment, "
                     "--perform, running jobs) and `orphans` (--clean, --ignore-old) are actions of XpmWorkspace whose generated histories are "
                     "replayed on real workspaces through the click commands, the directory tree being compared after each. Ill-formed filters must be rejected, not half-evaluated; regular expressions with escapes; XpmOrphansRace: the listings of `orphans` are not atomic while a new run of the experiment moves the links to the backup index -- TLC shows that index-before-backup is safe and the other order is not; the real command is interleaved with a real experiment start at every step of its listings.",
                note="String-valued tags; parentheses are not accepted by the filter grammar entry point and are outside the domain."),
}

REASON_TODO = "check not built yet (build in progress, see DESIGN.md section 12)"


def head(repo):
    return subprocess.run(["git", "-C", repo, "log", "--format=%H %s"], capture_output=True, text=True).stdout.splitlines()


hooks = [l.split()[0] for l in head("/repo") if "verif hooks" in l]
checks = []
for p in props:
    c = CHECKS.get(p["id"])
    if not c:
        continue
    checks.append({
        "property_id": p["id"],
        "quick_cmd": f"./check {p['id']} --tier quick",
        "thorough_cmd": f"./check {p['id']} --tier thorough",
        "evidence_file": f"/verif/evidence/{p['id']}.json",
        "replay_cmd_template": f"./check {p['id']} --replay {{path}}",
        "engine": c["engine"],
        "level_claimed": {"category": c["category"], "text": c["text"], "design_ref": "DESIGN.md section " + c["design"]},
        "level_note": c["note"],
        "technique": c["technique"],
    })
m = {
    "version": 1,
    "setup_cmd": "./setup.sh",
    "hooks": {
        "guard": "XPM_VERIF",
        "enable": "export XPM_VERIF=1 (read once at import of experimaestro.utils.verif; pure-Python package, checks run /repo/src "
                  "from the working tree through PYTHONPATH, nothing to rebuild)",
        "baseline_off_cmd": "cd /repo && env -u XPM_VERIF /venv/bin/python -m pytest -ra -q -p no:cacheprovider --timeout=900 "
                            "--continue-on-collection-errors",
        "source_commits": hooks,
        "add_only": True,
    },
    "engines": [
        {"name": "E1", "path": "/verif/xv/e1.py", "serves_properties": ["C04", "C05", "C06", "C07", "C08", "C09", "C10", "C11"],
         "kind_free_text": "deterministic in-process engine: the real scheduler coroutines on a controllable event loop; records one "
                           "event + full projected state per step; validated by TLC against spec/XpmScheduler_Trace.tla"},
        {"name": "E2-job", "path": "/verif/xv/e2_jobdir.py", "serves_properties": ["C05", "C10", "C11"],
         "kind_free_text": "real generated job scripts run by experimaestro.run in real processes; faults (KILL/TERM/INT/pause) raised "
                           "from inside at the k-th executed line; histories validated by TLC against spec/XpmJobDir_Trace.tla"},
        {"name": "E2-token", "path": "/verif/xv/e2_token.py", "serves_properties": ["C06", "C08", "C09", "C11"],
         "kind_free_text": "2-3 real processes sharing one CounterToken directory, scripted with pause points and deaths; hook event "
                           "logs validated by TLC against spec/XpmTokenFS_Trace.tla"},
        {"name": "E2-restart", "path": "/verif/xv/e2_restart.py", "serves_properties": ["C04", "C06", "C07", "C11", "C12"],
         "kind_free_text": "a real experiment process with real gated jobs, SIGKILLed before its k-th statement (all threads) or "
                           "signalled, then the same experiment again; body counts, adoptions and outputs compared with XpmScheduler's restart rules"},
        {"name": "adopt-replay", "path": "/verif/xv/adopt.py", "serves_properties": ["C05", "C11"],
         "kind_free_text": "the real experiment and scheduler in process with their accesses to the orphan job's marker, pid file and "
                           "process intercepted; the orphan's last steps are played between them as XpmAdopt's behaviours say"},
        {"name": "E3", "path": "/verif/xv/cfgreal.py", "serves_properties": ["C01", "C02", "C03", "C12", "C13", "C14", "C15", "C16", "C17", "C18", "C19", "C20"],
         "kind_free_text": "in-process: real configuration objects / workspaces / CLI driven along TLC-generated behaviours (spec->code) "
                           "and observed values sent to TLC as reference evaluator (code->spec)"},
    ],
    "checks": checks,
    "notes": "All checks: ./check <Cxx> --tier quick|thorough [--replay file]. Exit 0 held / 1 VIOLATION / 2 machinery failure.",
    "not_applicable": [{"property_id": p["id"], "reason": REASON_TODO} for p in props if p["id"] not in CHECKS],
}
(VERIF / "MANIFEST.json").write_text(json.dumps(m, indent=1))
print("checks:", [c["property_id"] for c in checks])
