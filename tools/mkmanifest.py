#!/usr/bin/env python3
"""Generates /verif/MANIFEST.json from the table below (single source of truth for the interface)"""
import json
import subprocess
from pathlib import Path

VERIF = Path(__file__).resolve().parent.parent
props = [json.loads(l) for l in (VERIF / "properties.jsonl").read_text().splitlines() if l.strip()]

SCHED_NOTE = ("Trusted: the E1 engine's simulation of job processes (TaskRunner protocol) and of helper-thread completion; "
              "asyncio's FIFO callback order; bounded workloads (<=4 jobs, <=2 tokens) for the exhaustive TLC configs.")

CHECKS = {
    "C04": dict(category="model_checking", engine="E1", design="5 (C04), 3.1, 4.3",
                technique="TLA+ XpmScheduler: TLC exhaustive (NoEarlyLaunch) + trace validation of real scheduler executions (E1)",
                text="TLC checks NoEarlyLaunch on every interleaving of the scheduler model for all DAGs of the dag family; the real "
                     "scheduler is run under the deterministic engine on real task graphs (8 ways of embedding an upstream task), every "
                     "recorded step must be a step of the specification with equal projected state and the action property is evaluated on "
                     "every recorded step.", note=SCHED_NOTE),
    "C06": dict(category="model_checking", engine="E1", design="5 (C06), 3.1, 4.1, 4.3",
                technique="TLA+ XpmScheduler: TLC exhaustive (final-state invariants, deadlock freedom, liveness) + trace validation (E1)",
                text="TLC explores every interleaving of loop callbacks, helper threads, process exits and main-thread calls for small DAG/token/"
                     "re-submission workloads (invariants TruthfulFinal, FinalAbsorbing, ResultIsFinal, WaitOnlyWhenAllFinal, deadlock = hang); "
                     "thousands of real executions (systematic for tiny workloads, seeded random otherwise) are validated step by step against "
                     "the specification and every execution must end in the model's GoodEnd.", note=SCHED_NOTE),
    "C07": dict(category="model_checking", engine="E1", design="5 (C07), 3.1",
                technique="TLA+ XpmScheduler: TLC exhaustive over failing subsets + trace validation (E1)",
                text="All failing subsets of chain/diamond DAGs are explored exhaustively by TLC (dependents cancelled, independents run, exit "
                     "status); real executions with failing processes are validated against the specification.", note=SCHED_NOTE),
    "C08": dict(category="model_checking", engine="E1", design="5 (C08), 3.1, 3.3",
                technique="TLA+ XpmScheduler (in-process token): TLC exhaustive Capacity + trace validation (E1)",
                text="Capacity / conservation invariants checked by TLC for all interleavings with heterogeneous requests; real executions with "
                     "the real ProcessCounterToken validated step by step (available and held amounts are part of the compared state).",
                note=SCHED_NOTE + " Multi-process file token: see XpmTokenFS (added when built)."),
    "C09": dict(category="model_checking", engine="E1", design="5 (C09), 3.1, 3.3",
                technique="TLA+ XpmScheduler: TLC deadlock freedom + IdleTokenIsFull + liveness; trace validation incl. aborted starts (E1)",
                text="Every way a job ends (success, failure, aborted start) returns its tokens: checked exhaustively on the model and on real "
                     "executions whose End event requires the model's terminal predicate (tokens full, nothing waiting).", note=SCHED_NOTE),
    "C05": dict(category="model_checking", engine="E1+E2", design="5 (C05), 3.1, 3.2",
                technique="TLA+ XpmScheduler (registry, done markers, restart) + XpmJobDir (competing launches): TLC exhaustive + trace validation of E1 executions and of real-process races (E2)",
                text="Registry de-duplication, 'never launched again when done' and re-submission are checked by TLC on the scheduler model and on "
                     "real scheduler executions (duplicates at every position, later experiments, removed markers); 'the body never runs twice at "
                     "once / again after success' is checked by TLC on the job-directory model (2-3 competing launches, signals anywhere) and on "
                     "scripted races of 2-3 real job processes whose histories must be behaviours of the model.",
                note=SCHED_NOTE + " E2 races are scripted (holder in body, waiter blocked on the lock, third arrival), not exhaustive at instruction level."),
    "C10": dict(category="fault_enumeration", engine="E2", design="5 (C10), 3.2, 4.4",
                technique="TLA+ XpmJobDir: TLC exhaustive over signal x statement; fault enumeration signal x executed line of the real TaskRunner, histories validated by TLC (silent-step trace spec)",
                text="Every k-th (quick) / every (thorough) executed line of run.py and of the task body is used as the instant of SIGKILL, SIGTERM "
                     "and SIGINT of a real generated job script (plus failing body, pre-existing .failed/.done, relaunches, competing launches); the "
                     "observed exit status, markers, lock state and body begin/end records of each history must be explained by a behaviour of "
                     "XpmJobDir, whose invariants (DoneOnlyIfBodyCompleted, HandledSignalInBody, NoPidAfterOwnEnd, LockHolderAlive) TLC "
                     "checks exhaustively.",
                note="Trusted: kernel semantics of fcntl locks / signals; line granularity of sys.settrace for the fault position; the harness plays the launcher side (lock, spawn, pid file, unlock)."),
    "C11": dict(category="fault_enumeration", engine="E1", design="5 (C11), 3.1, 4.3",
                technique="TLA+ XpmScheduler with Die/Restart: TLC exhaustive (restart family) + fault sweep (scheduler death after every k-th event) over real scheduler executions validated by TLC",
                text="The scheduler model includes SIGKILL of the scheduler at any point and a restart on the same workspace (adoption through "
                     "the pid file, done markers, run lock held by surviving job processes); TLC checks body-exactly-once invariants exhaustively "
                     "and the real scheduler is killed after every k-th recorded event of base schedules (with long-running and short jobs), "
                     "restarted, and the whole two-run history validated against the specification.",
                note=SCHED_NOTE + " Scheduler death is injected at loop-callback boundaries of the in-process engine; real-process kills are covered for the job side by C10."),
}

REASON_TODO = "check not built yet (build in progress, see DESIGN.md section 12)"


def head(repo):
    return subprocess.run(["git", "-C", repo, "log", "--format=%H %s"], capture_output=True, text=True).stdout.splitlines()


hooks = [l.split()[0] for l in head("/repo") if "verif hooks" in l]
checks = []
for p in props:
    c = CHECKS.get(p["id"])
    if not c:
        continue
    checks.append({
        "property_id": p["id"],
        "quick_cmd": f"./check {p['id']} --tier quick",
        "thorough_cmd": f"./check {p['id']} --tier thorough",
        "evidence_file": f"/verif/evidence/{p['id']}.json",
        "replay_cmd_template": f"./check {p['id']} --replay {{path}}",
        "engine": c["engine"],
        "level_claimed": {"category": c["category"], "text": c["text"], "design_ref": "DESIGN.md section " + c["design"]},
        "level_note": c["note"],
        "technique": c["technique"],
    })
m = {
    "version": 1,
    "setup_cmd": "./setup.sh",
    "hooks": {
        "guard": "XPM_VERIF",
        "enable": "export XPM_VERIF=1 (read once at import of experimaestro.utils.verif; pure-Python package, checks run /repo/src "
                  "from the working tree through PYTHONPATH, nothing to rebuild)",
        "baseline_off_cmd": "cd /repo && env -u XPM_VERIF /venv/bin/python -m pytest -ra -q -p no:cacheprovider --timeout=900 "
                            "--continue-on-collection-errors",
        "source_commits": hooks,
        "add_only": True,
    },
    "engines": [
        {"name": "E1", "path": "/verif/xv/e1.py", "serves_properties": ["C04", "C05", "C06", "C07", "C08", "C09", "C11"],
         "kind_free_text": "deterministic in-process engine: the real scheduler coroutines on a controllable event loop; records one "
                           "event + full projected state per step; validated by TLC against spec/XpmScheduler_Trace.tla"},
    ],
    "checks": checks,
    "notes": "All checks: ./check <Cxx> --tier quick|thorough [--replay file]. Exit 0 held / 1 VIOLATION / 2 machinery failure.",
    "not_applicable": [{"property_id": p["id"], "reason": REASON_TODO} for p in props if p["id"] not in CHECKS],
}
(VERIF / "MANIFEST.json").write_text(json.dumps(m, indent=1))
print("checks:", [c["property_id"] for c in checks])
