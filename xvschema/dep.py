"""Task / configuration classes for the repair of deprecated identifiers (C20): OldT / OldC become deprecated
names of NewT / NewC when XV_DEPRECATE=1 (a workspace is first filled *before* the deprecation)"""
import os

from experimaestro import Config, Param, Task, deprecate


class NewC(Config):
    v: Param[int]


class OldC(NewC):
    pass


class NewT(Task):
    n: Param[int]
    c: Param[NewC]

    def execute(self):
        pass


class OldT(NewT):
    pass


if os.environ.get("XV_DEPRECATE") == "1":
    OldC = deprecate(OldC)
    OldT = deprecate(OldT)
