"""Task / configuration classes for the repair of deprecated identifiers (C20): OldT / OldC become deprecated
names of NewT / NewC when XV_DEPRECATE=1 (a workspace is first filled *before* the deprecation)"""
import os
from typing import Optional

from experimaestro import Config, LightweightTask, Meta, Param, Task, deprecate


class NewC(Config):
    v: Param[int]


class OldC(NewC):
    pass


class InitT(LightweightTask):
    """An init task: part of the identity of the job it is submitted with"""

    k: Param[int]

    def execute(self):
        pass


class NewT(Task):
    __xpmid__ = "Xv.Dep.NewT"      # (an explicit, mixed-case type identifier: it names the job folder as it is)

    n: Param[int]
    c: Param[NewC]
    m: Meta[Optional[NewC]] = None

    def execute(self):
        pass


class OldT(NewT):
    pass


if os.environ.get("XV_DEPRECATE") == "1":
    OldC = deprecate(OldC)
    OldT = deprecate(OldT)


def make(j, old):
    """The jobs of the repair scenarios.  1: deprecated task class; 2: replacement task holding a deprecated configuration,
    submitted with an init task; 3: nothing deprecated (its identifier never changes), submitted with an init task.
    old: as written by the program before the deprecation"""
    n = int(j)
    if j == "1":
        return (OldT if old else NewT)(n=n, c=NewC(v=n)), []
    if j == "2":
        # (a value held by a Meta parameter, forced into the signature with setmeta(.., False))
        from experimaestro import setmeta

        return NewT(n=n, c=(OldC if old else NewC)(v=n), m=setmeta(NewC(v=100 + n), False)), [InitT(k=n)]
    return NewT(n=n, c=NewC(v=n)), [InitT(k=n)]


def submit(j, old):
    t, init = make(j, old)
    if init:
        t.submit(init_tasks=init)
    else:
        t.submit()
    return t
