"""Placeholder module: classes created dynamically by the C15 driver claim to live here"""
