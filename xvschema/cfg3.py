"""A later version of a class of xvschema.cfg: S1 has gained a required (Meta) parameter.  Used to load what an earlier
version of the program saved (version skew)."""
from experimaestro import Config, Meta, Param


class S1(Config):
    __xpmid__ = "xvschema.cfg.s1"

    a: Param[int]
    w: Meta[int]
