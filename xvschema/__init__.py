"""Schema classes used by the verification harness (must be importable:
configurations defined in __main__ re-execute their file when reloaded)"""
