"""Second generation of the schema classes (C02): same type identifiers, extra defaulted / Meta / generated
parameters.  Identifiers of existing configurations must not change."""
from pathlib import Path
from typing import Dict, List, Optional

from experimaestro import Config, Constant, Meta, Param, PathGenerator, field

from .cfg import Color, _seven


class K(Config):
    __xpmid__ = "xvschema.cfg.k"

    a: Param[int]
    b: Param[int] = 5
    c: Param[Optional[Config]] = None
    d: Param[Dict[str, Config]] = {}
    e: Param[Optional[Color]] = None
    f: Param[Optional[float]] = None
    g: Meta[Optional[Config]] = None
    l: Param[List[Config]] = []
    m: Meta[int] = 0
    o: Param[Optional[int]] = 9
    p: Meta[Path] = field(default_factory=PathGenerator("p.txt"))
    s: Param[Optional[str]] = None
    v: Constant[int] = 3
    # --- new in generation 2
    za: Param[int] = 0
    zb: Param[str] = ""
    zc: Param[Optional[Config]] = None
    zd: Param[List[int]] = []
    ze: Meta[int] = 5
    zf: Meta[Path] = field(default_factory=PathGenerator("zf.txt"))
    zg: Param[bool] = False
    zh: Param[Dict[str, int]] = {}
    zi: Param[float] = 0.0


class K2(Config):
    __xpmid__ = "xvschema.cfg.k2"

    a: Param[int]
    c: Param[Optional[Config]] = None
    q: Meta[Path] = field(default_factory=PathGenerator("q.txt"))
    v: Constant[int] = 4
    za: Param[int] = 1
    zb: Meta[Optional[Config]] = None


class V(Config):
    __xpmid__ = "xvschema.cfg.v"

    dd: Param[Dict[str, Dict[str, int]]] = {}
    ds: Param[Dict[str, int]] = {}
    li: Param[List[int]] = []
    ll: Param[List[List[int]]] = []
    s1: Param[str] = ""
    s2: Param[str] = ""
    za: Param[List[List[int]]] = []
    zb: Param[Optional[str]] = None


class G(Config):
    __xpmid__ = "xvschema.cfg.g"

    p: Meta[Path] = field(default_factory=PathGenerator("g.txt"))
    u: Param[int] = field(default_factory=_seven)
    z: Param[Optional[Config]] = None
    za: Param[int] = field(default_factory=_seven)
    zb: Param[int] = 3
