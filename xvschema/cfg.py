"""Configuration classes over which XpmConfig.tla is written (the *schema*).

tools/gen_schema.py reads the live ``__xpmtype__`` of these classes and emits spec/XpmSchema.tla, so the
TLA+ side is cross-checked against what experimaestro really derived (names, order, ignored / default /
constant / generator flags)."""
import json
import os
from enum import Enum
from pathlib import Path
from typing import Dict, List, Optional

from experimaestro import Config, Constant, LightweightTask, Meta, Param, PathGenerator, Task, field, deprecate
from experimaestro.annotations import option, param

CALLS = []  # runtime call log (post-init / execute), reset by the drivers


class Color(Enum):
    RED = 1
    BLUE = 2


class K(Config):
    """General node"""

    a: Param[int]
    b: Param[int] = 5
    c: Param[Optional[Config]] = None
    d: Param[Dict[str, Config]] = {}
    e: Param[Optional[Color]] = None
    f: Param[Optional[float]] = None
    g: Meta[Optional[Config]] = None
    l: Param[List[Config]] = []
    m: Meta[int] = 0
    o: Param[Optional[int]] = 9
    p: Meta[Path] = field(default_factory=PathGenerator("p.txt"))
    s: Param[Optional[str]] = None
    v: Constant[int] = 3

    def __post_init__(self):
        CALLS.append(("post_init", id(self)))


class K2(Config):
    """Second class: another type identifier, another constant"""

    a: Param[int]
    c: Param[Optional[Config]] = None
    q: Meta[Path] = field(default_factory=PathGenerator("q.txt"))
    v: Constant[int] = 4

    def __post_init__(self):
        if FAIL_POST_INIT:
            FAIL_POST_INIT.pop()
            raise RuntimeError("post-initialisation fails as planned")
        CALLS.append(("post_init", id(self)))


@deprecate
class K2Old(K2):
    """Deprecated name of K2"""

    pass


@deprecate
class K2Older(K2Old):
    """A still older name: a deprecated class whose replacement is itself deprecated"""

    pass


class V(Config):
    """Structured scalar values (lists / dicts of ints and strings)"""

    dd: Param[Dict[str, Dict[str, int]]] = {}
    ds: Param[Dict[str, int]] = {}
    li: Param[List[int]] = []
    ll: Param[List[List[int]]] = []
    s1: Param[str] = ""
    s2: Param[str] = ""

    def __post_init__(self):
        CALLS.append(("post_init", id(self)))


class PX(Config):
    """A class with an explicit type identifier ..."""

    __xpmid__ = "xv.px"

    a: Param[int]
    c: Param[Optional[Config]] = None

    def __post_init__(self):
        CALLS.append(("post_init", id(self)))


class QX(PX):
    """... and a subclass that does not declare its own: its identifier is derived from its own name"""

    pass


class N(Config):
    """Configurations inside nested containers"""

    dl: Param[Dict[str, List[Config]]] = {}
    ld: Param[List[Dict[str, Config]]] = []
    ll: Param[List[List[Config]]] = []

    def __post_init__(self):
        CALLS.append(("post_init", id(self)))


class DH(Config):
    """A parameter whose default is a configuration: every instance gets its own copy of it"""

    child: Param[K2] = K2(a=1)
    n: Param[int] = 0

    def __post_init__(self):
        CALLS.append(("post_init", id(self)))


@param("a", type=int)
@option("threads", default=4)
class OD(Config):
    """Declared with the decorators: a parameter and an option (outside the signature)"""

    def __post_init__(self):
        CALLS.append(("post_init", id(self)))


class MB(Config):
    x: Param[int] = 1
    y: Param[int] = 2


class ML(MB):
    """... one branch turns the parameter into a Meta parameter"""

    x: Meta[int] = 1


class MR(MB):
    pass


class MD(ML, MR):
    """Diamond: the first base wins (x is outside the signature, y is in)"""

    def __post_init__(self):
        CALLS.append(("post_init", id(self)))


class S1(Config):
    """Saved by this version of the program, loaded by the next one (xvschema.cfg3) where it has a new required parameter"""

    a: Param[int]


def _seven():
    return 7


class G(Config):
    """Generated values: a path declared before, and a child declared after (the child is walked last)"""

    p: Meta[Path] = field(default_factory=PathGenerator("g.txt"))
    u: Param[int] = field(default_factory=_seven)
    z: Param[Optional[Config]] = None

    def __post_init__(self):
        CALLS.append(("post_init", id(self)))


FAIL_POST_INIT = []  # a driver puts a token here to make the next K2.__post_init__ raise once (fault injection)


FAIL_GEN = []  # a driver puts a token here to make the next path generation of GF raise once (fault injection)


def _gf_name(context, config):
    if FAIL_GEN:
        FAIL_GEN.pop()
        raise RuntimeError("path generation fails as planned")
    return "f.txt"


class GF(Config):
    """A generated path whose name is computed by a function"""

    p: Meta[Path] = field(default_factory=PathGenerator(_gf_name))
    z: Param[Optional[Config]] = None

    def __post_init__(self):
        CALLS.append(("post_init", id(self)))


class LW(LightweightTask):
    k: Param[int]
    c: Param[Optional[Config]] = None

    def __post_init__(self):
        CALLS.append(("post_init", id(self)))

    def execute(self):
        CALLS.append(("execute", id(self), self.k))
        log = os.environ.get("XV_CALLLOG")
        if log:
            with open(log, "a") as fp:
                fp.write(json.dumps(["execute-lw", self.k]) + "\n")


class T(Task):
    """A task whose output is a fresh wrapper configuration"""

    x: Param[Config]
    n: Param[int] = 0
    r: Meta[Path] = field(default_factory=PathGenerator("r.txt"))

    def __post_init__(self):
        CALLS.append(("post_init", id(self)))

    def task_outputs(self, dep):
        return dep(K2(a=self.n))

    def execute(self):
        CALLS.append(("execute", id(self), None))
        log = os.environ.get("XV_CALLLOG")
        if log:
            with open(log, "a") as fp:
                fp.write(json.dumps(["execute-task", self.n]) + "\n")


class T0(Task):
    """A task that is its own output"""

    x: Param[Optional[Config]] = None
    n: Param[int] = 0

    def __post_init__(self):
        CALLS.append(("post_init", id(self)))

    def execute(self):
        CALLS.append(("execute", id(self), None))


class T1(Task):
    """A task whose output is one of its own parameters (marked as produced by the task)"""

    x: Param[Config]
    n: Param[int] = 0

    def __post_init__(self):
        CALLS.append(("post_init", id(self)))

    def task_outputs(self, dep):
        return dep(self.x)

    def execute(self):
        CALLS.append(("execute", id(self), None))


def abstract_instance(root):
    """Abstract view of a graph of runtime objects (used by Echo inside the job process): nodes keyed by
    discovery order, values in the notation of XpmConfig.tla"""
    nodes = {}
    ids = {}

    def val(v):
        if v is None:
            return ["none"]
        if isinstance(v, bool):
            return ["bool", v]
        if isinstance(v, Enum):
            return ["enum", v.name]
        if isinstance(v, int):
            return ["int", v]
        if isinstance(v, float):
            return ["float", repr(v)]
        if isinstance(v, str):
            return ["str", v]
        if isinstance(v, Path):
            return ["path", str(v)]
        if isinstance(v, list):
            return ["list", [val(x) for x in v]]
        if isinstance(v, dict):
            return ["dict", [[k, val(x)] for k, x in v.items()]]
        return ["cfg", node(v)]

    def node(o):
        if id(o) in ids:
            return ids[id(o)]
        name = str(len(ids) + 1)
        ids[id(o)] = name
        t = o.__xpmtype__
        rec = {"cls": [c for c in type(o).__mro__ if not c.__name__.endswith("XPMValue")][0].__name__, "vals": {}}
        nodes[name] = rec
        for a in t.arguments:
            rec["vals"][a] = val(getattr(o, a, None))
        return name

    return {"root": node(root), "nodes": nodes}


class Echo(Task):
    """Writes what the task code observes in the job process: parameter values (whole graph) and tags"""

    x: Param[Config]
    n: Param[int] = 0
    out: Meta[Path] = field(default_factory=PathGenerator("echo.json"))

    def execute(self):
        self.out.parent.mkdir(parents=True, exist_ok=True)
        self.out.write_text(json.dumps({"graph": abstract_instance(self.x), "n": self.n, "tags": dict(self.__tags__), "calls": len(CALLS)}))


class R(Config):
    """A required parameter that is outside the signature (not hashed): missing it must still be detected"""

    q: Meta[int]
