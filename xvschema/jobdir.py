"""Task used by the real-process engine (E2): its body appends begin/end records to a shared log
(O_APPEND: the order of the records is the order of the writes), can wait for a gate file and can fail."""
import json
import os
import time
from pathlib import Path
from typing import Optional

from experimaestro import Meta, Param, Task


def _emit(log, rec):
    fd = os.open(log, os.O_WRONLY | os.O_APPEND | os.O_CREAT, 0o644)
    os.write(fd, (json.dumps(rec) + "\n").encode())
    os.close(fd)


class Body(Task):
    x: Param[int]
    log: Meta[str] = ""
    gatedir: Meta[Optional[str]] = None
    fail: Meta[bool] = False

    def execute(self):
        me = os.environ.get("XV_PROC", f"x{self.x}")
        _emit(self.log, {"e": "begin", "p": me, "pid": os.getpid()})
        if os.environ.get("XV_FORK") == "1":
            # task code that forks (multiprocessing, subprocess with preexec_fn, ...): the child leaves at once
            child = os.fork()
            if child == 0:
                os._exit(0)
            os.waitpid(child, 0)
        if os.environ.get("XV_FORK") == "loop":
            # ... or forks again and again for half a second (worker pools, subprocess calls)
            t0 = time.time()
            while time.time() - t0 < 0.5:
                child = os.fork()
                if child == 0:
                    os._exit(0)
                os.waitpid(child, 0)
        if self.gatedir:
            gate = Path(self.gatedir) / f"gate.{me}"
            while not gate.exists():
                time.sleep(0.002)
        a = 1
        b = a + 1
        c = a + b
        if self.fail or os.environ.get("XV_FAIL") == "1":
            _emit(self.log, {"e": "fail", "p": me, "pid": os.getpid()})
            raise AssertionError("failing as planned")
        d = c * 2
        print(f"result of {me}: {d}", flush=True)       # what the job leaves on its standard output
        _emit(self.log, {"e": "end", "p": me, "pid": os.getpid()})
        return d


class Body2(Body):
    """Same body, with an upstream task among its parameters"""

    up: Param[Optional[Task]] = None
