"""Task used by the workspace engine (its process is simulated by the harness)"""
from experimaestro import Param, Task


class W(Task):
    n: Param[int]

    def execute(self):
        pass
