"""Workload classes for the scheduler engines (E1 / E2)

A ``Node`` can embed upstream tasks in every way the dependency collection is
supposed to see: directly, in a list, as a dict value, inside a nested
configuration, through a task-output wrapper, through a pre-task, through an
init task, and through ``add_dependencies``.
"""
import json
import os
import time
from pathlib import Path
from typing import Dict, List, Optional

from experimaestro import Config, LightweightTask, Meta, Param, Task


class Holder(Config):
    inner: Param[Optional[Config]] = None
    inners: Param[List[Config]] = []


class Out(Config):
    """Wrapper returned by NodeOut.task_outputs"""

    label: Param[str]


class Pre(LightweightTask):
    """A lightweight task holding a reference to something upstream"""

    up: Param[Optional[Config]] = None
    label: Param[str] = ""

    def execute(self):
        log = os.environ.get("XV_BODYLOG")
        if log:
            with open(log, "a") as fp:
                fp.write(json.dumps({"e": "lw", "label": self.label, "pid": os.getpid()}) + "\n")


def _body(self):
    """Shared task body: logs begin/end in a shared O_APPEND file, can wait
    for a release file, can fail"""
    log = os.environ.get("XV_BODYLOG")

    def emit(e):
        if log:
            fd = os.open(log, os.O_WRONLY | os.O_APPEND | os.O_CREAT, 0o644)
            os.write(fd, (json.dumps({"e": e, "job": self.name, "pid": os.getpid(), "w": self.weight}) + "\n").encode())
            os.close(fd)

    emit("begin")
    if self.gate:
        gate = Path(self.gate)
        while not gate.exists():
            time.sleep(0.005)
    if self.sleep:
        time.sleep(self.sleep)
    if self.fail:
        emit("fail")
        raise AssertionError("failing as planned")
    emit("end")


class Node(Task):
    name: Param[str]
    direct: Param[Optional[Config]] = None
    lst: Param[List[Config]] = []
    dct: Param[Dict[str, Config]] = {}
    nested: Param[Optional[Holder]] = None
    lol: Param[List[List[Config]]] = []
    lod: Param[List[Dict[str, Config]]] = []
    metaup: Meta[Optional[Config]] = None
    fail: Meta[bool] = False
    gate: Meta[Optional[str]] = None
    sleep: Meta[float] = 0.0
    weight: Meta[int] = 0

    def execute(self):
        _body(self)


class NodeOut(Task):
    """Same as Node, but what submit() returns is a wrapper configuration"""

    name: Param[str]
    direct: Param[Optional[Config]] = None
    lst: Param[List[Config]] = []
    dct: Param[Dict[str, Config]] = {}
    nested: Param[Optional[Holder]] = None
    lol: Param[List[List[Config]]] = []
    lod: Param[List[Dict[str, Config]]] = []
    metaup: Meta[Optional[Config]] = None
    fail: Meta[bool] = False
    gate: Meta[Optional[str]] = None
    sleep: Meta[float] = 0.0
    weight: Meta[int] = 0

    def task_outputs(self, dep):
        return dep(Out(label=self.name))

    def execute(self):
        _body(self)


class NodePass(Task):
    """A task that hands the configuration it received on to its own consumers: what submit() returns is `direct`
    itself, now marked as an output of this task"""

    name: Param[str]
    direct: Param[Config]
    lst: Param[List[Config]] = []
    dct: Param[Dict[str, Config]] = {}
    nested: Param[Optional[Holder]] = None
    lol: Param[List[List[Config]]] = []
    lod: Param[List[Dict[str, Config]]] = []
    metaup: Meta[Optional[Config]] = None
    fail: Meta[bool] = False
    gate: Meta[Optional[str]] = None
    sleep: Meta[float] = 0.0
    weight: Meta[int] = 0

    def task_outputs(self, dep):
        return dep(self.direct)

    def execute(self):
        _body(self)
