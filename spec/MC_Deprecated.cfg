SPECIFICATION Spec
CONSTANT Jobs = {"1", "2", "3"}
CONSTANT Fresh = {"3"}
CONSTANT Depth = 3
PROPERTY OldReachableUnderNew
PROPERTY Idempotent
PROPERTY NeverLosesReach
INVARIANT FreshUntouched
INVARIANT Emit
CHECK_DEADLOCK FALSE
