SPECIFICATION Spec
CONSTANT Jobs = {"1", "2"}
CONSTANT Depth = 3
PROPERTY OldReachableUnderNew
PROPERTY Idempotent
PROPERTY NeverLosesReach
INVARIANT Emit
CHECK_DEADLOCK FALSE
