SPECIFICATION Spec
CONSTANT FixF1 = TRUE
CONSTANT FixF18 = FALSE
INVARIANT IdStableUnderSeal
INVARIANT DefaultSkipped
