SPECIFICATION Spec
CONSTANT Part = "match"
INVARIANT MatchSound
INVARIANT MatchEmit
CHECK_DEADLOCK FALSE
