----------------------------- MODULE XpmFunctions -----------------------------
(***************************************************************************)
(* Three decision functions of experimaestro transcribed as TLA+ operators   *)
(* (the documented exception of the technique: self-contained functions     *)
(* with rich case analysis; TLC enumerates the bounded input domain, checks  *)
(* the function-level invariants and prints one expected result per input,   *)
(* each of which becomes one test of the implementation):                    *)
(*   1. launcher requests vs host specifications (launcherfinder/specs.py)   *)
(*   2. job filters (cli/filter.py)                                          *)
(*   3. parameter type validation / coercion (core/types.py)                 *)
(***************************************************************************)
EXTENDS Naturals, Integers, Sequences, FiniteSets, TLC, Json, SequencesExt

CONSTANT Part   \* "match" | "filter" | "types"
VARIABLE x      \* the input being evaluated (chosen in Init)


Max2(a, b) == IF a >= b THEN a ELSE b

(* ================= 1. requests and hosts ================= *)
(* simple requirement: [mem, cores, dur, gpus]  (gpus = ascending sequence of requested GPU memories)      *)
(* host: [mem, cores, maxdur, mingpu, gpus]  (gpus = sequence of [mem, minmem], in the order given)        *)
RECURSIVE Insert(_, _), SortAsc(_)
Insert(q, v) == IF q = <<>> THEN <<v>> ELSE IF v <= Head(q) THEN <<v>> \o q ELSE <<Head(q)>> \o Insert(Tail(q), v)
SortAsc(q) == IF q = <<>> THEN <<>> ELSE Insert(SortAsc(Tail(q)), Head(q))

Cpu(mem, cores) == [mem |-> mem, cores |-> cores, dur |-> 0, gpus |-> <<>>]
Gpu(mem) == [mem |-> 0, cores |-> 0, dur |-> 0, gpus |-> <<mem>>]
Dur(d) == [mem |-> 0, cores |-> 0, dur |-> d, gpus |-> <<>>]

And(a, b) == [mem |-> Max2(a.mem, b.mem), cores |-> Max2(a.cores, b.cores), dur |-> Max2(a.dur, b.dur), gpus |-> SortAsc(a.gpus \o b.gpus)]
RECURSIVE Rep(_, _)
Rep(q, n) == IF n = 0 THEN <<>> ELSE q \o Rep(q, n - 1)
Mul(a, n) == [a EXCEPT !.gpus = SortAsc(Rep(a.gpus, n))]

(* the decision procedure of HostSimpleRequirement.match (position-wise pairing of the GPUs) *)
Match(r, h) ==
  /\ (r.gpus # <<>> => /\ Len(h.gpus) >= Len(r.gpus)
                       /\ \A i \in DOMAIN r.gpus : h.gpus[i].mem >= r.gpus[i] /\ h.gpus[i].minmem <= r.gpus[i])
  /\ Len(r.gpus) >= h.mingpu
  /\ h.mem >= r.mem /\ h.cores >= r.cores
  /\ (h.maxdur > 0 => r.dur <= h.maxdur)

(* what a match promises (C18): enough GPUs, each large enough, enough CPU memory and cores, duration allowed *)
Injections(n, S) == {f \in [1..n -> S] : \A a, b \in 1..n : a # b => f[a] # f[b]}
Satisfies(h, r) ==
  /\ \E f \in Injections(Len(r.gpus), DOMAIN h.gpus) : \A i \in DOMAIN r.gpus : h.gpus[f[i]].mem >= r.gpus[i]
  /\ h.mem >= r.mem /\ h.cores >= r.cores
  /\ (h.maxdur > 0 => r.dur <= h.maxdur)

(* a union is an ordered list: the first alternative that matches (0 = none) *)
FirstMatch(rs, h) == IF \E i \in DOMAIN rs : Match(rs[i], h) THEN CHOOSE i \in DOMAIN rs : Match(rs[i], h) /\ \A j \in 1..(i - 1) : ~Match(rs[j], h) ELSE 0

Mems == {0, 2, 12, 70}
CpuTerms == {Cpu(m, c) : m \in {0, 2, 12, 70}, c \in {1, 4, 16}}
GpuTerms == {Gpu(m) : m \in {0, 12, 24, 70}}
DurTerms == {Dur(d) : d \in {3600, 172800}}
Terms == CpuTerms \cup GpuTerms \cup DurTerms
(* expression trees as uniform records: [op, t (leaf term), kids (sequence of sub-expressions), n (multiplier)] *)
Nil == Cpu(0, 0)
T(t) == [op |-> "t", t |-> t, kids |-> <<>>, n |-> 0]
AndE(a, b) == [op |-> "and", t |-> Nil, kids |-> <<a, b>>, n |-> 0]
MulE(a, n) == [op |-> "mul", t |-> Nil, kids |-> <<a>>, n |-> n]
Simple == {T(t) : t \in Terms}
           \cup {AndE(T(a), T(b)) : a \in GpuTerms \cup DurTerms, b \in CpuTerms}
           \cup {MulE(T(a), n) : a \in GpuTerms, n \in 1..3}
           \cup {AndE(T(a), T(b)) : a, b \in {Cpu(12, 1), Cpu(2, 16), Cpu(70, 4), Cpu(0, 16)}}      \* two CPU terms, often incomparable
           \cup {AndE(T(a), T(b)) : a, b \in {Gpu(70), Gpu(24), Gpu(12)}}                         \* GPUs of different sizes
           \cup {AndE(AndE(T(Gpu(70)), T(Gpu(12))), T(c)) : c \in {Gpu(24), Cpu(12, 4)}}
           \cup {AndE(MulE(T(a), n), T(b)) : a \in {Gpu(12), Gpu(24)}, n \in 2..3, b \in {Cpu(12, 4), Cpu(70, 16)}}
           \cup {AndE(AndE(T(d), T(a)), T(b)) : d \in DurTerms, a \in {Gpu(12), Gpu(70)}, b \in {Cpu(2, 1), Cpu(70, 4)}}
           \cup {MulE(AndE(AndE(T(d), T(a)), T(b)), 2) : d \in DurTerms, a \in {Gpu(24)}, b \in {Cpu(12, 4)}}
RECURSIVE Norm(_)
Norm(e) == CASE e.op = "t" -> e.t
             [] e.op = "and" -> And(Norm(e.kids[1]), Norm(e.kids[2]))
             [] e.op = "mul" -> Mul(Norm(e.kids[1]), e.n)
Unions == {<<a, b>> : a \in {T(Gpu(70)), MulE(T(Gpu(24)), 2), AndE(T(Gpu(12)), T(Cpu(70, 4)))},
                      b \in {T(Cpu(2, 1)), T(Gpu(12)), AndE(T(Dur(172800)), T(Cpu(12, 4)))}}

HostGpus == {<<>>} \cup {<<[mem |-> m, minmem |-> k]>> : m \in {12, 80}, k \in {0, 16}}
              \cup {<<[mem |-> a, minmem |-> 0], [mem |-> b, minmem |-> 0]>> : a, b \in {12, 24, 80}}
              \cup {<<[mem |-> 80, minmem |-> 0], [mem |-> 24, minmem |-> 0], [mem |-> 12, minmem |-> 0]>>}
Hosts == {[mem |-> m, cores |-> c, maxdur |-> d, mingpu |-> g, gpus |-> gp] :
             m \in {8, 64}, c \in {2, 16}, d \in {0, 18000}, g \in {0, 1}, gp \in HostGpus}
HostSeq == SetToSeq(Hosts)

MatchSound == Part = "match" => \A h \in Hosts : \A i \in DOMAIN x.es : Match(Norm(x.es[i]), h) => Satisfies(h, Norm(x.es[i]))
AndMulPure == TRUE   \* And / Mul are functions: operands cannot change; aliasing in the code shows as a replay mismatch

(* LauncherRegistry.find with a user function that tries a list of hosts in order: the alternatives of the request are
   tried in the order given -- the result is the first alternative for which some host matches, and that host *)
FindIn(rs, hs) ==
  LET ok(i) == \E k \in DOMAIN hs : Match(rs[i], hs[k])
  IN IF \E i \in DOMAIN rs : ok(i)
     THEN LET i == CHOOSE i \in DOMAIN rs : ok(i) /\ \A j \in 1..(i - 1) : ~ok(j)
              k == CHOOSE k \in DOMAIN hs : Match(rs[i], hs[k]) /\ \A m \in 1..(k - 1) : ~Match(rs[i], hs[m])
          IN <<i, k>>
     ELSE <<0, 0>>
FindHosts == {[mem |-> 64, cores |-> 16, maxdur |-> 0, mingpu |-> 0, gpus |-> <<>>],
              [mem |-> 8, cores |-> 2, maxdur |-> 0, mingpu |-> 0, gpus |-> <<[mem |-> 80, minmem |-> 0]>>],
              [mem |-> 64, cores |-> 16, maxdur |-> 18000, mingpu |-> 1, gpus |-> <<[mem |-> 24, minmem |-> 0], [mem |-> 24, minmem |-> 0]>>],
              [mem |-> 8, cores |-> 16, maxdur |-> 0, mingpu |-> 0, gpus |-> <<[mem |-> 12, minmem |-> 0]>>]}
HostLists == SetToSeq({<<a, b>> : a, b \in FindHosts})

MatchInputs == {[es |-> <<e>>] : e \in Simple} \cup {[es |-> u] : u \in Unions}
MatchEmit ==
  Part = "match" =>
    PrintT(<<"CASE", ToJson([ es |-> x.es, norm |-> [i \in DOMAIN x.es |-> Norm(x.es[i])],
                              res |-> [i \in DOMAIN HostSeq |-> FirstMatch([k \in DOMAIN x.es |-> Norm(x.es[k])], HostSeq[i])],
                              find |-> [i \in DOMAIN HostLists |-> FindIn([k \in DOMAIN x.es |-> Norm(x.es[k])], HostLists[i])] ])>>)
ASSUME Part = "match" => PrintT(<<"HOSTS", ToJson([hosts |-> HostSeq, lists |-> HostLists])>>)

(* ================= 2. job filters ================= *)
(* job: [tags: function name -> value, state, name].  Absent tag / no state = "-" (None) *)
NoneV == "-"
Get(v, job) == CASE v = "@state" -> job.state [] v = "@name" -> job.name [] OTHER -> job.tags[v]
(* pattern -> values matched at their start (re.match); the driver re-derives this table with Python's re *)
ReTable == ("a" :> {"ab"}) @@ ("^1$" :> {"1"}) @@ ("task" :> {"task.a"}) @@ ("\\d" :> {"1", "2"}) @@ ("task\\.a$" :> {"task.a"})
Atom(a, job) ==
  CASE a[1] = "eq" -> Get(a[2], job) = a[3]                       \* var = "constant"
    [] a[1] = "eqv" -> Get(a[2], job) = Get(a[3], job)            \* var = var
    [] a[1] = "in" -> Get(a[2], job) \in a[3]
    [] a[1] = "notin" -> Get(a[2], job) \notin a[3]
    [] a[1] = "re" -> Get(a[2], job) # NoneV /\ Get(a[2], job) \in ReTable[a[3]]
(* a chain  a1 op2 a2 op3 a3 ...  is evaluated from the left, without precedence *)
RECURSIVE Chain(_, _, _)
Chain(acc, rest, job) ==
  IF rest = <<>> THEN acc
  ELSE LET op == rest[1][1]
           v == Atom(rest[1][2], job)
       IN Chain(IF op = "and" THEN acc /\ v ELSE acc \/ v, Tail(rest), job)
Eval(f, job) == Chain(Atom(f[1], job), Tail(f), job)   \* f = <<atom, <<op, atom>>, ...>>

Atoms == {<<"eq", "x", "1">>, <<"eq", "y", "ab">>, <<"eq", "@state", "DONE">>, <<"eq", "@name", "task.a">>, <<"eqv", "x", "y">>,
          <<"in", "x", {"1", "2"}>>, <<"in", "@state", {"ERROR", "RUNNING"}>>, <<"notin", "x", {"1"}>>, <<"notin", "y", {"ab", "2"}>>,
          <<"re", "y", "a">>, <<"re", "x", "^1$">>, <<"re", "@name", "task">>,
          <<"re", "x", "\\d">>, <<"re", "@name", "task\\.a$">>}          \* regular expressions with escapes
Filters == {<<a>> : a \in Atoms} \cup {<<a, <<o, b>>>> : a, b \in Atoms, o \in {"and", "or"}}
             \cup {<<a, <<o, b>>, <<p, c>>>> : a \in Atoms, b \in {<<"eq", "y", "ab">>, <<"in", "x", {"1", "2"}>>, <<"notin", "x", {"1"}>>},
                                              c \in {<<"eq", "@state", "DONE">>, <<"re", "y", "a">>, <<"eq", "x", "1">>}, o, p \in {"and", "or"}}
Jobs == {[tags |-> t, state |-> st, name |-> nm] :
           t \in [{"x", "y"} -> {"1", "2", "ab", NoneV}],
           st \in {"DONE", "ERROR", "RUNNING", NoneV}, nm \in {"task.a", "other.b"}}
JobSeq == SetToSeq(Jobs)

(* sanity of the semantics: negated membership is the negation of membership, and/or are the boolean connectives *)
FilterLaws ==
  Part = "filter" =>
    \A j \in Jobs : /\ Atom(<<"notin", "x", {"1"}>>, j) = ~Atom(<<"in", "x", {"1"}>>, j)
                    /\ (Len(x) = 2 => Eval(x, j) = (IF x[2][1] = "and" THEN Atom(x[1], j) /\ Atom(x[2][2], j) ELSE Atom(x[1], j) \/ Atom(x[2][2], j)))
FilterEmit ==
  Part = "filter" => PrintT(<<"CASE", ToJson([f |-> x, res |-> [i \in DOMAIN JobSeq |-> IF Eval(x, JobSeq[i]) THEN 1 ELSE 0]])>>)
ASSUME Part = "filter" => PrintT(<<"JOBS", ToJson(JobSeq)>>)

(* ================= 3. parameter types ================= *)
(* values are uniform records [k, s, items]: k = kind, s = payload as a string, items = sequence of values
   (list elements) or of <<key value, value>> pairs (dict).  Floats: "1.0", "2.0" integral, "0.5" not. *)
Val(k, p) == [k |-> k, s |-> p, items |-> <<>>]
ListV(items) == [k |-> "list", s |-> "", items |-> items]
DictV(items) == [k |-> "dict", s |-> "", items |-> items]
NoneVal == Val("none", "")
Base == {"int", "float", "str", "bool", "path", "enum", "cfgK", "cfgK2"}
Ty(c, args) == [c |-> c, args |-> args]
Types1 == {Ty(b, <<>>) : b \in Base}
(* an optional is only supported at the top level of a parameter type (Optional nested in a container is
   refused by experimaestro when the class is defined) *)
Types2 == Types1 \cup {Ty(c, <<t>>) : c \in {"list", "dict", "opt"}, t \in Types1}
Types3 == Types2 \cup {Ty(c, <<t>>) : c \in {"list", "dict", "opt"},
                        t \in {Ty("list", <<Ty("int", <<>>)>>), Ty("dict", <<Ty("float", <<>>)>>), Ty("list", <<Ty("float", <<>>)>>),
                               Ty("list", <<Ty("cfgK", <<>>)>>), Ty("dict", <<Ty("path", <<>>)>>)}}
Integral == {"1.0", "2.0", "-2.0"}
IntOf == [f \in Integral |-> CASE f = "1.0" -> "1" [] f = "2.0" -> "2" [] f = "-2.0" -> "-2"]
Scalars == {Val("int", "1"), Val("int", "0"), Val("float", "1.0"), Val("float", "0.5"), Val("float", "-1.5"), Val("float", "-2.0"), Val("str", "a"), Val("str", ""), Val("bool", "T"), NoneVal,
            Val("path", "a"), Val("enum", "RED"), Val("cfg", "K"), Val("cfg", "K2"), Val("cfg", "K2Old")}
Lists1 == {ListV(<<>>)} \cup {ListV(<<a>>) : a \in Scalars} \cup {ListV(<<a, b>>) : a \in {Val("int", "1"), Val("float", "1.0"), Val("str", "a")}, b \in Scalars}
Dicts1 == {DictV(<<>>)} \cup {DictV(<<<<k, a>>>>) : k \in {Val("str", "k"), Val("int", "1")}, a \in Scalars}
Values == Scalars \cup Lists1 \cup Dicts1
            \cup {ListV(<<l>>) : l \in {ListV(<<Val("int", "1")>>), ListV(<<Val("float", "0.5")>>), DictV(<<<<Val("str", "k"), Val("float", "1.0")>>>>), Val("int", "1")}}
            \cup {DictV(<<<<Val("str", "k"), l>>>>) : l \in {ListV(<<Val("int", "1")>>), ListV(<<Val("str", "a")>>), DictV(<<<<Val("str", "j"), Val("int", "1")>>>>)}}

Reject == Val("REJECT", "")
IsSub(c, want) == (want = "cfgK" /\ c = "K") \/ (want = "cfgK2" /\ c \in {"K2", "K2Old"})
Falsy == {Val("int", "0"), Val("str", ""), NoneVal, ListV(<<>>), DictV(<<>>), Val("bool", "F")}
RECURSIVE Coerce(_, _), CoerceSeq(_, _), CoerceKV(_, _)
CoerceSeq(vs, t) ==
  IF vs = <<>> THEN <<>>
  ELSE LET h == Coerce(Head(vs), t)
           r == CoerceSeq(Tail(vs), t)
       IN IF h = Reject \/ r = <<Reject>> THEN <<Reject>> ELSE <<h>> \o r
CoerceKV(kvs, t) ==
  IF kvs = <<>> THEN <<>>
  ELSE LET k == Coerce(Head(kvs)[1], Ty("str", <<>>))
           h == Coerce(Head(kvs)[2], t)
           r == CoerceKV(Tail(kvs), t)
       IN IF k = Reject \/ h = Reject \/ r = <<Reject>> THEN <<Reject>> ELSE <<<<k, h>>>> \o r
Coerce(v, t) ==
  CASE t.c = "opt" -> IF v = NoneVal THEN v ELSE Coerce(v, t.args[1])
    [] t.c = "list" -> IF v.k = "list" THEN (LET r == CoerceSeq(v.items, t.args[1]) IN IF r = <<Reject>> THEN Reject ELSE ListV(r)) ELSE Reject
    [] t.c = "dict" -> IF v.k = "dict" THEN (LET r == CoerceKV(v.items, t.args[1]) IN IF r = <<Reject>> THEN Reject ELSE DictV(r)) ELSE Reject
    [] t.c = "int" -> IF v.k \in {"int", "bool"} THEN v                \* a bool is an int in Python
                      ELSE IF v.k = "float" /\ v.s \in Integral THEN Val("int", IntOf[v.s]) ELSE Reject
    [] t.c = "float" -> IF v.k = "float" THEN v
                        ELSE IF v.k = "int" THEN Val("float", IF v.s = "1" THEN "1.0" ELSE "0.0")
                        ELSE IF v.k = "bool" THEN Val("float", "1.0") ELSE Reject
    [] t.c = "str" -> IF v.k = "str" THEN v ELSE Reject
    [] t.c = "bool" -> Val("bool", IF v \in Falsy THEN "F" ELSE "T")
    [] t.c = "path" -> IF v.k \in {"str", "path"} THEN Val("path", IF v.s = "" THEN "." ELSE v.s) ELSE Reject   \* Path("") is "."
    [] t.c = "enum" -> IF v.k = "enum" THEN v ELSE Reject
    [] t.c \in {"cfgK", "cfgK2"} -> IF v.k = "cfg" /\ IsSub(v.s, t.c) THEN v ELSE Reject

RECURSIVE Conforms(_, _)
Conforms(v, t) ==
  CASE t.c = "opt" -> v = NoneVal \/ Conforms(v, t.args[1])
    [] t.c = "list" -> v.k = "list" /\ \A i \in DOMAIN v.items : Conforms(v.items[i], t.args[1])
    [] t.c = "dict" -> v.k = "dict" /\ \A i \in DOMAIN v.items : v.items[i][1].k = "str" /\ Conforms(v.items[i][2], t.args[1])
    [] t.c = "int" -> v.k \in {"int", "bool"}
    [] t.c = "float" -> v.k = "float"
    [] t.c = "str" -> v.k = "str"
    [] t.c = "bool" -> v.k = "bool"
    [] t.c = "path" -> v.k = "path"
    [] t.c = "enum" -> v.k = "enum"
    [] t.c \in {"cfgK", "cfgK2"} -> v.k = "cfg" /\ IsSub(v.s, t.c)

(* assignment of a parameter: None is only accepted by an optional parameter *)
Assign(v, t) == IF v = NoneVal THEN (IF t.c = "opt" THEN NoneVal ELSE Reject) ELSE Coerce(v, t)
TypeInputs == {[t |-> t, v |-> v] : t \in Types3, v \in Values}
(* C15: what is stored has the declared type; a conforming value is stored unchanged *)
StoredConforms == Part = "types" => (Assign(x.v, x.t) # Reject => Conforms(Assign(x.v, x.t), x.t))
ConformingKept == Part = "types" => (Conforms(x.v, x.t) => Assign(x.v, x.t) = x.v)
TypesEmit == Part = "types" => PrintT(<<"CASE", ToJson([t |-> x.t, v |-> x.v, r |-> Assign(x.v, x.t)])>>)

(* ================= enumeration ================= *)
Inputs == CASE Part = "match" -> MatchInputs [] Part = "filter" -> Filters [] Part = "types" -> TypeInputs
Init == x \in Inputs
Next == UNCHANGED x
Spec == Init /\ [][Next]_x
=============================================================================
