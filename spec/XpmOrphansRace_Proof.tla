------------------------ MODULE XpmOrphansRace_Proof ------------------------
(* Unbounded proof (TLAPS) that listing the index before the backup index finds every link, for any number of links
   and any interleaving with the moves of a starting run. *)
EXTENDS XpmOrphansRace, TLAPS

ASSUME OrderAssumption == Order = <<"idx", "bak">>

TypeOK == /\ loc \in [Links -> {"idx", "bak"}]
          /\ seen \subseteq Links /\ todo \subseteq Links
          /\ phase \in {1, 2, 3}

Inv == /\ TypeOK
       /\ phase = 1 => \A l \in Links \ todo : l \in seen \/ loc[l] = "bak"
       /\ phase = 2 => /\ \A l \in Links : l \in seen \/ loc[l] = "bak"
                       /\ \A l \in Links \ todo : l \in seen
       /\ phase = 3 => seen = Links

THEOREM InitInv == Init => Inv
  BY DEF Init, Inv, TypeOK

THEOREM NextInv == Inv /\ [Next]_vars => Inv'
<1> SUFFICES ASSUME Inv, [Next]_vars PROVE Inv'
  OBVIOUS
<1>1. CASE \E l \in Links : Examine(l)
  <2> PICK l \in Links : Examine(l)
    BY <1>1
  <2>1. CASE phase = 1
    BY <2>1, OrderAssumption DEF Inv, TypeOK, Examine
  <2>2. CASE phase = 2
    BY <2>2, OrderAssumption DEF Inv, TypeOK, Examine
  <2> QED
    BY <2>1, <2>2 DEF Examine
<1>2. CASE \E l \in Links : Move(l)
  BY <1>2 DEF Inv, TypeOK, Move
<1>3. CASE NextPhase
  BY <1>3 DEF Inv, TypeOK, NextPhase
<1>4. CASE UNCHANGED vars
  BY <1>4 DEF Inv, TypeOK, vars
<1> QED
  BY <1>1, <1>2, <1>3, <1>4 DEF Next

THEOREM Safety == Spec => []AllReferencedSeen
<1>1. Inv => AllReferencedSeen
  BY DEF Inv, AllReferencedSeen
<1> QED
  BY InitInv, NextInv, <1>1, PTL DEF Spec
=============================================================================
