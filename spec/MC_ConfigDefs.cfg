SPECIFICATION Spec
CONSTANT FixF1 = TRUE
CONSTANT FixF18 = TRUE
CONSTANT Small = TRUE
INVARIANT DefsOnce
INVARIANT DefsChildrenFirst
INVARIANT InstIsReach
CHECK_DEADLOCK FALSE
