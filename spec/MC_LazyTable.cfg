SPECIFICATION Spec
CONSTANT Threads = {"t1", "t2"}
CONSTANT Keys = {"local", "slurm"}
CONSTANT PublishComplete = TRUE
INVARIANT AlwaysFound
