SPECIFICATION Spec
CONSTANT Part = "types"
INVARIANT StoredConforms
INVARIANT ConformingKept
INVARIANT TypesEmit
CHECK_DEADLOCK FALSE
