SPECIFICATION Spec
CONSTANT FixF1 = TRUE
CONSTANT FixF18 = TRUE
CONSTANT Small = FALSE
INVARIANT SigEncBijection
INVARIANT DeprecatedSame
CHECK_DEADLOCK FALSE
