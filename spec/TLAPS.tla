------------------------------- MODULE TLAPS --------------------------------

(* Backend pragmas. *)


(***************************************************************************)
(* Each of these pragmas can be cited with a BY or a USE.  The pragma that *)
(* is added to the context of an obligation most recently is the one whose *)
(* effects are triggered.                                                  *)
(***************************************************************************)

(***************************************************************************)
(* The following pragmas should be used only as a last resource.  They are *)
(* dependent upon the particular backend provers, and are unlikely to have *)
(* any effect if the set of backend provers changes.  Moreover, they are   *)
(* meaningless to a reader of the proof.                                   *)
(***************************************************************************)


(**************************************************************************)
(* Backend pragma: use the SMT solver for arithmetic.                     *)
(*                                                                        *)
(* This method exists under this name for historical reasons.             *)
(**************************************************************************)

SimpleArithmetic == TRUE (*{ by (prover:"smt3") }*)


(**************************************************************************)
(* Backend pragma: SMT solver                                             *)
(*                                                                        *)
(* This method translates the proof obligation to SMTLIB2. The supported  *)
(* fragment includes first-order logic, set theory, functions and         *)
(* records.                                                               *)
(* SMT calls the smt-solver with the default timeout of 5 seconds         *)
(* while SMTT(n) calls the smt-solver with a timeout of n seconds.        *)
(*                                                                        *)
(* SMTT also accepts a string argument of the form "rN" to bound the      *)
(* underlying Z3 solver by a deterministic `rlimit` budget instead of a    *)
(* wall-clock timeout, e.g. SMTT("r5"). N is a multiple of a fixed base    *)
(* resource count, so a small readable budget like "r5" is meaningful.     *)
(* Unlike a wall-clock timeout, an `rlimit` budget does not depend on CPU  *)
(* speed or load, so the proof's pass/fail outcome reproduces on any       *)
(* machine and every rerun (for a fixed Z3 build); how long it takes to    *)
(* consume the budget still varies by machine. This is Z3-specific.        *)
(**************************************************************************)

SMT == TRUE (*{ by (prover:"smt3") }*)
SMTT(X) == TRUE (*{ by (prover:"smt3"; timeout:@) }*)


(**************************************************************************)
(* Backend pragma: CVC4 SMT solver                                        *)
(*                                                                        *)
(* These methods translate the proof obligation to SMTLIB2 and call CVC4. *)
(**************************************************************************)

(* The CVC3* methods are here for backward compatibility. They call CVC4. *)
CVC3 == TRUE (*{ by (prover: "cvc33") }*)
CVC3T(X) == TRUE (*{ by (prover:"cvc33"; timeout:@) }*)

CVC4 == TRUE (*{ by (prover: "cvc33") }*)
CVC4T(X) == TRUE (*{ by (prover:"cvc33"; timeout:@) }*)


(**************************************************************************)
(* Backend pragma: Yices SMT solver                                       *)
(*                                                                        *)
(* This method translates the proof obligation to Yices native language.  *)
(**************************************************************************)

Yices == TRUE (*{ by (prover: "yices3") }*)
YicesT(X) == TRUE (*{ by (prover:"yices3"; timeout:@) }*)

(**************************************************************************)
(* Backend pragma: veriT SMT solver                                       *)
(*                                                                        *)
(* This method translates the proof obligation to SMTLIB2 and calls veriT.*)
(**************************************************************************)

veriT == TRUE (*{ by (prover: "verit") }*)
veriTT(X) == TRUE (*{ by (prover:"verit"; timeout:@) }*)

(**************************************************************************)
(* Backend pragma: Zipperposition solver                                  *)
(*                                                                        *)
(* This method translates the proof obligation to TPTP and                *)
(* calls Zipperposition.                                                  *)
(**************************************************************************)

Zipper == TRUE (*{ by (prover: "zipper") }*)
ZipperT(X) == TRUE (*{ by (prover:"zipper"; timeout:@) }*)

(**************************************************************************)
(* Backend pragma: Z3 SMT solver                                          *)
(*                                                                        *)
(* This method translates the proof obligation to SMTLIB2 and calls Z3.   *)
(* Z3 is used by default but you can also explicitly call it.             *)
(* Z3T(n) bounds Z3 by a wall-clock timeout of n seconds, while Z3T("rN")  *)
(* bounds it by a deterministic `rlimit` budget of N base units, which      *)
(* reproduces the same outcome on any machine (see SMTT).                   *)
(**************************************************************************)

Z3 == TRUE (*{ by (prover: "z33") }*)
Z3T(X) == TRUE (*{ by (prover:"z33"; timeout:@) }*)

(**************************************************************************)
(* Backend pragma: SPASS superposition prover                             *)
(*                                                                        *)
(* This method translates the proof obligation to the DFG format language *)
(* supported by the ATP SPASS. The translation is based on the SMT one.   *)
(**************************************************************************)

Spass == TRUE (*{ by (prover: "spass") }*)
SpassT(X) == TRUE (*{ by (prover:"spass"; timeout:@) }*)

(**************************************************************************)
(* Backend pragma: The PTL propositional linear time temporal logic       *)
(* prover.  It currently is the LS4 backend.                              *)
(*                                                                        *)
(* This method translates the negetation of the proof obligation to       *)
(* Seperated Normal Form (TRP++ format) and checks for unsatisfiability   *)
(**************************************************************************)

LS4 == TRUE (*{ by (prover: "ls4") }*)
LS4T(X) == TRUE (*{ by (prover: "ls4"; timeout:@) }*)
PTL == TRUE (*{ by (prover: "ls4") }*)

(**************************************************************************)
(* Backend pragma: Zenon with different timeouts (default is 10 seconds)  *)
(*                                                                        *)
(**************************************************************************)

Zenon == TRUE (*{ by (prover:"zenon") }*)
ZenonT(X) == TRUE (*{ by (prover:"zenon"; timeout:@) }*)

(********************************************************************)
(* Backend pragma: Isabelle with different timeouts and tactics     *)
(*  (default is 30 seconds/auto)                                    *)
(********************************************************************)

Isa == TRUE (*{ by (prover:"isabelle") }*)
IsaT(X) ==  TRUE (*{ by (prover:"isabelle"; timeout:@) }*)
IsaM(X) ==  TRUE (*{ by (prover:"isabelle"; tactic:@) }*)
IsaMT(X,Y) ==  TRUE (*{ by (prover:"isabelle"; tactic:@; timeout:@) }*)

(***************************************************************************)
(* The following theorem expresses the (useful implication of the) law of  *)
(* set extensionality, which can be written as                             *)
(*                                                                         *)
(*    THEOREM  \A S, T : (S = T) <=> (\A x : (x \in S) <=> (x \in T))      *)
(*                                                                         *)
(* Theorem SetExtensionality is sometimes required by the SMT backend for  *)
(* reasoning about sets. It is usually counterproductive to include        *)
(* theorem SetExtensionality in a BY clause for the Zenon or Isabelle      *)
(* backends. Instead, use the pragma IsaWithSetExtensionality to instruct  *)
(* the Isabelle backend to use the rule of set extensionality.             *)
(***************************************************************************)
IsaWithSetExtensionality == TRUE
           (*{ by (prover:"isabelle"; tactic:"(auto intro: setEqualI)")}*)

THEOREM SetExtensionality == \A S,T : (\A x : x \in S <=> x \in T) => S = T
OBVIOUS

(***************************************************************************)
(* The following theorem is needed to deduce NotInSetS \notin SetS from    *)
(* the definition                                                          *)
(*                                                                         *)
(*   NotInSetS == CHOOSE v : v \notin SetS                                 *)
(***************************************************************************)
THEOREM NoSetContainsEverything == \A S : \E x : x \notin S
OBVIOUS (*{by (isabelle "(auto intro: inIrrefl)")}*)
-----------------------------------------------------------------------------



(********************************************************************)
(********************************************************************)
(********************************************************************)


(********************************************************************)
(* Old versions of Zenon and Isabelle pragmas below                 *)
(* (kept for compatibility)                                         *)
(********************************************************************)


(**************************************************************************)
(* Backend pragma: Zenon with different timeouts (default is 10 seconds)  *)
(*                                                                        *)
(**************************************************************************)

SlowZenon == TRUE (*{ by (prover:"zenon"; timeout:20) }*)
SlowerZenon == TRUE (*{ by (prover:"zenon"; timeout:40) }*)
VerySlowZenon == TRUE (*{ by (prover:"zenon"; timeout:80) }*)
SlowestZenon == TRUE (*{ by (prover:"zenon"; timeout:160) }*)



(********************************************************************)
(* Backend pragma: Isabelle's automatic search ("auto")             *)
(*                                                                  *)
(* This pragma bypasses Zenon. It is useful in situations involving *)
(* essentially simplification and equational reasoning.             *)
(* Default imeout for all isabelle tactics is 30 seconds.           *)
(********************************************************************)
Auto == TRUE (*{ by (prover:"isabelle"; tactic:"auto") }*)
SlowAuto == TRUE (*{ by (prover:"isabelle"; tactic:"auto"; timeout:120) }*)
SlowerAuto == TRUE (*{ by (prover:"isabelle"; tactic:"auto"; timeout:480) }*)
SlowestAuto == TRUE (*{ by (prover:"isabelle"; tactic:"auto"; timeout:960) }*)

(********************************************************************)
(* Backend pragma: Isabelle's "force" tactic                        *)
(*                                                                  *)
(* This pragma bypasses Zenon. It is useful in situations involving *)
(* quantifier reasoning.                                            *)
(********************************************************************)
Force == TRUE (*{ by (prover:"isabelle"; tactic:"force") }*)
SlowForce == TRUE (*{ by (prover:"isabelle"; tactic:"force"; timeout:120) }*)
SlowerForce == TRUE (*{ by (prover:"isabelle"; tactic:"force"; timeout:480) }*)
SlowestForce == TRUE (*{ by (prover:"isabelle"; tactic:"force"; timeout:960) }*)

(***********************************************************************)
(* Backend pragma: Isabelle's "simplification" tactics                 *)
(*                                                                     *)
(* These tactics simplify the goal before running one of the automated *)
(* tactics. They are often necessary for obligations involving record  *)
(* or tuple projections. Use the SimplfyAndSolve tactic unless you're  *)
(* sure you can get away with just Simplification                      *)
(***********************************************************************)
SimplifyAndSolve        == TRUE
    (*{ by (prover:"isabelle"; tactic:"clarsimp auto?") }*)
SlowSimplifyAndSolve    == TRUE
    (*{ by (prover:"isabelle"; tactic:"clarsimp auto?"; timeout:120) }*)
SlowerSimplifyAndSolve  == TRUE
    (*{ by (prover:"isabelle"; tactic:"clarsimp auto?"; timeout:480) }*)
SlowestSimplifyAndSolve == TRUE
    (*{ by (prover:"isabelle"; tactic:"clarsimp auto?"; timeout:960) }*)

Simplification == TRUE (*{ by (prover:"isabelle"; tactic:"clarsimp") }*)
SlowSimplification == TRUE
    (*{ by (prover:"isabelle"; tactic:"clarsimp"; timeout:120) }*)
SlowerSimplification  == TRUE
    (*{ by (prover:"isabelle"; tactic:"clarsimp"; timeout:480) }*)
SlowestSimplification == TRUE
    (*{ by (prover:"isabelle"; tactic:"clarsimp"; timeout:960) }*)

(**************************************************************************)
(* Backend pragma: Isabelle's tableau prover ("blast")                    *)
(*                                                                        *)
(* This pragma bypasses Zenon and uses Isabelle's built-in theorem        *)
(* prover, Blast. It is almost never better than Zenon by itself, but     *)
(* becomes very useful in combination with the Auto pragma above. The     *)
(* AutoBlast pragma first attempts Auto and then uses Blast to prove what *)
(* Auto could not prove. (There is currently no way to use Zenon on the   *)
(* results left over from Auto.)                                          *)
(**************************************************************************)
Blast == TRUE (*{ by (prover:"isabelle"; tactic:"blast") }*)
SlowBlast == TRUE (*{ by (prover:"isabelle"; tactic:"blast"; timeout:120) }*)
SlowerBlast == TRUE (*{ by (prover:"isabelle"; tactic:"blast"; timeout:480) }*)
SlowestBlast == TRUE (*{ by (prover:"isabelle"; tactic:"blast"; timeout:960) }*)

AutoBlast == TRUE (*{ by (prover:"isabelle"; tactic:"auto, blast") }*)


(**************************************************************************)
(* Backend pragmas: multi-back-ends                                       *)
(*                                                                        *)
(* These pragmas just run a bunch of back-ends one after the other in the *)
(* hope that one will succeed. This saves time and effort for the user at *)
(* the expense of computation time.                                       *)
(**************************************************************************)

(* CVC3 goes first because it's bundled with TLAPS, then the other SMT
   solvers are unlikely to succeed if CVC3 fails, so we run zenon and
   Isabelle before them. *)
AllProvers == TRUE (*{
    by (prover:"cvc33")
    by (prover:"zenon")
    by (prover:"isabelle"; tactic:"auto")
    by (prover:"spass")
    by (prover:"smt3")
    by (prover:"yices3")
    by (prover:"verit")
    by (prover:"z33")
    by (prover:"isabelle"; tactic:"force")
    by (prover:"isabelle"; tactic:"(auto intro: setEqualI)")
    by (prover:"isabelle"; tactic:"clarsimp auto?")
    by (prover:"isabelle"; tactic:"clarsimp")
    by (prover:"isabelle"; tactic:"auto, blast")
  }*)
AllProversT(X) == TRUE (*{
    by (prover:"cvc33"; timeout:@)
    by (prover:"zenon"; timeout:@)
    by (prover:"isabelle"; tactic:"auto"; timeout:@)
    by (prover:"spass"; timeout:@)
    by (prover:"smt3"; timeout:@)
    by (prover:"yices3"; timeout:@)
    by (prover:"verit"; timeout:@)
    by (prover:"z33"; timeout:@)
    by (prover:"isabelle"; tactic:"force"; timeout:@)
    by (prover:"isabelle"; tactic:"(auto intro: setEqualI)"; timeout:@)
    by (prover:"isabelle"; tactic:"clarsimp auto?"; timeout:@)
    by (prover:"isabelle"; tactic:"clarsimp"; timeout:@)
    by (prover:"isabelle"; tactic:"auto, blast"; timeout:@)
  }*)

AllSMT == TRUE (*{
    by (prover:"cvc33")
    by (prover:"smt3")
    by (prover:"yices3")
    by (prover:"verit")
    by (prover:"z33")
  }*)
AllSMTT(X) == TRUE (*{
    by (prover:"cvc33"; timeout:@)
    by (prover:"smt3"; timeout:@)
    by (prover:"yices3"; timeout:@)
    by (prover:"verit"; timeout:@)
    by (prover:"z33"; timeout:@)
  }*)

AllIsa == TRUE (*{
    by (prover:"isabelle"; tactic:"auto")
    by (prover:"isabelle"; tactic:"force")
    by (prover:"isabelle"; tactic:"(auto intro: setEqualI)")
    by (prover:"isabelle"; tactic:"clarsimp auto?")
    by (prover:"isabelle"; tactic:"clarsimp")
    by (prover:"isabelle"; tactic:"auto, blast")
  }*)
AllIsaT(X) == TRUE (*{
    by (prover:"isabelle"; tactic:"auto"; timeout:@)
    by (prover:"isabelle"; tactic:"force"; timeout:@)
    by (prover:"isabelle"; tactic:"(auto intro: setEqualI)"; timeout:@)
    by (prover:"isabelle"; tactic:"clarsimp auto?"; timeout:@)
    by (prover:"isabelle"; tactic:"clarsimp"; timeout:@)
    by (prover:"isabelle"; tactic:"auto, blast"; timeout:@)
  }*)


(**************************************************************************)
(* The pragma ExpandEnabled invokes expansion of the operator ENABLED.    *)
(*                                                                        *)
(* The pragma ExpandCdot invokes expansion of the operator \cdot.         *)
(*                                                                        *)
(* The pragma AutoUSE invokes automated expansion of definitions,         *)
(* for both of ExpandEnabled and ExpandCdot, when each is present.        *)
(*                                                                        *)
(* The pragma Lambdify invokes expansion of the operators                 *)
(* ENABLED and \cdot to an intermediate form with bound VARIABLES,        *)
(* which is a form before introducing rigid quantifiers.                  *)
(* The pragma Lambdify is sound for occurrences of ENABLED and \cdot      *)
(* that are not nested.                                                   *)
(**************************************************************************)
ExpandENABLED == TRUE  (*{ by (prover:"expandenabled") }*)
ExpandCdot == TRUE  (*{ by (prover:"expandcdot") }*)
AutoUSE == TRUE  (*{ by (prover:"autouse") }*)
Lambdify == TRUE  (*{ by (prover:"lambdify") }*)
ENABLEDaxioms == TRUE  (*{ by (prover:"enabledaxioms") }*)
LevelComparison == TRUE  (*{ by (prover:"levelcomparison") }*)

(* The operators EnabledWrapper and CdotWrapper occur in an intermediate  *)
(* representation within TLAPM.                                           *)
EnabledWrapper(Op(_)) == FALSE
CdotWrapper(Op(_)) == FALSE

(***************************************************************************)
(* The following may be used in a `BY ONLY ThmName` for unit testing the   *)
(* triviality checks in TLAPM.                                             *)
(***************************************************************************)
Trivial == TRUE  (*{ by (prover:"trivial") }*)


=============================================================================

The material below is obsolete: the TLA proof rules below are superseded by
the PTL decision procedure, and their formulation is unsound for the semantics
of temporal reasoning that TLAPS adopts.

----------------------------------------------------------------------------
(***************************************************************************)
(*                           TEMPORAL LOGIC                                *)
(*                                                                         *)
(* The following rules are intended to be used when TLAPS handles temporal *)
(* logic.  They will not work now.  Moreover when temporal reasoning is    *)
(* implemented, these rules may be changed or omitted, and additional      *)
(* rules will probably be added.  However, they are included mainly so     *)
(* their names will be defined, preventing the use of identifiers that are *)
(* likely to produce name clashes with future versions of this module.     *)
(***************************************************************************)


(***************************************************************************)
(* The following proof rules (and their names) are from the paper "The     *)
(* Temporal Logic of Actions".                                             *)
(***************************************************************************)
THEOREM RuleTLA1 == ASSUME STATE P, STATE f,
                           P /\ (f' = f) => P'
                    PROVE  []P <=> P /\ [][P => P']_f

THEOREM RuleTLA2 == ASSUME STATE P, STATE Q, STATE f, STATE g,
                           ACTION A, ACTION B,
                           P /\ [A]_f => Q /\ [B]_g
                    PROVE  []P /\ [][A]_f => []Q /\ [][B]_g

THEOREM RuleINV1 == ASSUME STATE I, STATE F,  ACTION N,
                           I /\ [N]_F => I'
                    PROVE  I /\ [][N]_F => []I

THEOREM RuleINV2 == ASSUME STATE I, STATE f, ACTION N
                    PROVE  []I => ([][N]_f <=> [][N /\ I /\ I']_f)

THEOREM RuleWF1 == ASSUME STATE P, STATE Q, STATE f, ACTION N, ACTION A,
                          P /\ [N]_f => (P' \/ Q'),
                          P /\ <<N /\ A>>_f => Q',
                          P => ENABLED <<A>>_f
                   PROVE  [][N]_f /\ WF_f(A) => (P ~> Q)

THEOREM RuleSF1 == ASSUME STATE P, STATE Q, STATE f,
                          ACTION N, ACTION A, TEMPORAL F,
                          P /\ [N]_f => (P' \/ Q'),
                          P /\ <<N /\ A>>_f => Q',
                          []P /\ [][N]_f /\ []F => <> ENABLED <<A>>_f
                   PROVE  [][N]_f /\ SF_f(A) /\ []F => (P ~> Q)

(***************************************************************************)
(* The rules WF2 and SF2 in "The Temporal Logic of Actions" are obtained   *)
(* from the following two rules by the following substitutions: `.         *)
(*                                                                         *)
(*          ___        ___         _______________                         *)
(*      M <- M ,   g <- g ,  EM <- ENABLED <<M>>_g       .'                *)
(***************************************************************************)
THEOREM RuleWF2 == ASSUME STATE P, STATE f, STATE g, STATE EM,
                          ACTION A, ACTION B, ACTION N, ACTION M,
                          TEMPORAL F,
                          <<N /\ B>>_f => <<M>>_g,
                          P /\ P' /\ <<N /\ A>>_f /\ EM => B,
                          P /\ EM => ENABLED A,
                          [][N /\ ~B]_f /\ WF_f(A) /\ []F /\ <>[]EM => <>[]P
                   PROVE  [][N]_f /\ WF_f(A) /\ []F => []<><<M>>_g \/ []<>(~EM)

THEOREM RuleSF2 == ASSUME STATE P, STATE f, STATE g, STATE EM,
                          ACTION A, ACTION B, ACTION N, ACTION M,
                          TEMPORAL F,
                          <<N /\ B>>_f => <<M>>_g,
                          P /\ P' /\ <<N /\ A>>_f /\ EM => B,
                          P /\ EM => ENABLED A,
                          [][N /\ ~B]_f /\ SF_f(A) /\ []F /\ []<>EM => <>[]P
                   PROVE  [][N]_f /\ SF_f(A) /\ []F => []<><<M>>_g \/ <>[](~EM)


(***************************************************************************)
(* The following rule is a special case of the general temporal logic      *)
(* proof rule STL4 from the paper "The Temporal Logic of Actions".  The    *)
(* general rule is for arbitrary temporal formulas F and G, but it cannot  *)
(* yet be handled by TLAPS.                                                *)
(***************************************************************************)
THEOREM RuleInvImplication ==
  ASSUME STATE F, STATE G,
         F => G
  PROVE  []F => []G
PROOF OMITTED

(***************************************************************************)
(* The following rule is a special case of rule TLA2 from the paper "The   *)
(* Temporal Logic of Actions".                                             *)
(***************************************************************************)
THEOREM RuleStepSimulation ==
  ASSUME STATE I, STATE f, STATE g,
         ACTION M, ACTION N,
         I /\ I' /\ [M]_f => [N]_g
  PROVE  []I /\ [][M]_f => [][N]_g
PROOF OMITTED

(***************************************************************************)
(* The following may be used to invoke a decision procedure for            *)
(* propositional temporal logic.                                           *)
(***************************************************************************)
PropositionalTemporalLogic == TRUE
=============================================================================
