---------------------------- MODULE XpmLazyTable ----------------------------
(* The table of process handlers (connectors.Process.HANDLERS), built at its first use, when several threads use it   *)
(* for the first time at once: the reclaim threads that the first recount of a token directory starts -- one per     *)
(* token file found -- each rebuild a process from a pid file (Process.fromDefinition -> Process.handler).            *)
(*   handler(key):  if HANDLERS is None: <build>;  return HANDLERS.get(key)                                           *)
(*   <build>, as it was:   HANDLERS = {};  for each entry point: HANDLERS[name] = load()                              *)
(*   <build>, repaired:    t = {};  for each entry point: t[name] = load();  HANDLERS = t                             *)
EXTENDS Naturals, FiniteSets, TLC

CONSTANTS Threads, Keys,
          PublishComplete      \* TRUE: the table becomes visible once complete (F24 repaired)

VARIABLES table,     \* [set: the shared variable is not None any more, keys: what the shared table holds]
          pc,        \* thread -> "test" | "fill" | "get" | "done"
          local,     \* thread -> the keys loaded so far by a thread that builds
          got        \* thread -> "-" | "found" | "missing"
vars == <<table, pc, local, got>>

Init == table = [set |-> FALSE, keys |-> {}] /\ pc = [t \in Threads |-> "test"] /\ local = [t \in Threads |-> {}] /\ got = [t \in Threads |-> "-"]

Test(t) ==
  /\ pc[t] = "test"
  /\ IF ~table.set
     THEN /\ pc' = [pc EXCEPT ![t] = "fill"]
          /\ table' = IF PublishComplete THEN table ELSE [set |-> TRUE, keys |-> {}]     \* (as it was: the empty table is visible at once)
     ELSE pc' = [pc EXCEPT ![t] = "get"] /\ UNCHANGED table
  /\ UNCHANGED <<local, got>>

(* one entry point is loaded *)
Fill(t) ==
  /\ pc[t] = "fill"
  /\ \E k \in Keys \ local[t] :
       /\ local' = [local EXCEPT ![t] = @ \cup {k}]
       /\ table' = IF PublishComplete THEN table ELSE [table EXCEPT !.keys = @ \cup {k}]
  /\ UNCHANGED <<pc, got>>

Publish(t) ==
  /\ pc[t] = "fill" /\ local[t] = Keys
  /\ table' = IF PublishComplete THEN [set |-> TRUE, keys |-> Keys] ELSE table
  /\ pc' = [pc EXCEPT ![t] = "get"]
  /\ UNCHANGED <<local, got>>

Get(t, k) ==
  /\ pc[t] = "get" /\ table.set
  /\ got' = [got EXCEPT ![t] = IF k \in table.keys THEN "found" ELSE "missing"]
  /\ pc' = [pc EXCEPT ![t] = "done"]
  /\ UNCHANGED <<table, local>>

Done == (\A t \in Threads : pc[t] = "done") /\ UNCHANGED vars
Next == (\E t \in Threads : Test(t) \/ Fill(t) \/ Publish(t) \/ \E k \in Keys : Get(t, k)) \/ Done
Spec == Init /\ [][Next]_vars

(* a registered handler is always found (otherwise the assertion of fromDefinition kills the thread) *)
AlwaysFound == \A t \in Threads : got[t] # "missing"
=============================================================================
