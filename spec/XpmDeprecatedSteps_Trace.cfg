SPECIFICATION TraceSpec
CONSTANT Jobs = {"1", "2"}
CONSTRAINT Progress
POSTCONDITION Accepted
CHECK_DEADLOCK FALSE
