SPECIFICATION SpecClean
CONSTANT Jobs = {"1", "2", "3"}
CONSTANT Xps = {"x", "xy"}
CONSTANT Fails = {"3"}
CONSTANT Depth = 6
INVARIANT Emit
CHECK_DEADLOCK FALSE
