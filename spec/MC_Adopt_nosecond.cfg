SPECIFICATION Spec
CONSTANT Outcomes = {"ok", "fail", "killed"}
CONSTANT SecondCheck = FALSE
CONSTANT Launching = FALSE
CONSTANT GuardedRead = TRUE
PROPERTY NoRelaunchOfSuccess
