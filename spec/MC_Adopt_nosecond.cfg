SPECIFICATION Spec
CONSTANT Outcomes = {"ok", "fail", "killed"}
CONSTANT SecondCheck = FALSE
CONSTANT GuardedRead = TRUE
INVARIANT NoRelaunchOfSuccess
