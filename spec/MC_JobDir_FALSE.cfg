SPECIFICATION MCSpec
CONSTANT Procs = {"p1", "p2"}
CONSTANT FixF6 = FALSE
CONSTANT FixF21 = TRUE
INVARIANT TypeOK
INVARIANT OneBodyAtATime
INVARIANT NoBodyAfterDone
INVARIANT LockHolderAlive
INVARIANT DoneOnlyIfBodyCompleted
INVARIANT HandledSignalInBody
INVARIANT NoPidAfterOwnEnd
CHECK_DEADLOCK FALSE
