----------------------------- MODULE XpmWorkspace -----------------------------
(***************************************************************************)
(* The workspace across runs of experiments and maintenance commands:       *)
(*   jobs/<task>/<id>            job directories with their markers          *)
(*   xp/<name>/jobs, jobs.bak    index and backup index (symbolic links)     *)
(* Actions: a run of an experiment (experiment.__enter__ / submit /          *)
(* __exit__, scheduler/base.py l.966-1058) ending normally, by an exception  *)
(* or by a kill; `jobs clean` (cli/jobs.py process); `orphans`               *)
(* (cli/__init__.py); a job marked as running (pid file, no marker).         *)
(* The repair of deprecated identifiers is the separate module               *)
(* XpmDeprecated (same directory tree, other actions).                       *)
(***************************************************************************)
EXTENDS Naturals, Sequences, FiniteSets, TLC, Json

CONSTANTS Jobs,      \* job identities (one task type)
          Xps,       \* experiment names
          Fails,     \* jobs whose process fails
          Depth

VARIABLES dirs,      \* job -> "none" | "gen" (generated, never run) | "done" | "failed" | "running"   (job directory and its markers)
          idx, bak,  \* experiment -> set of linked jobs (index / backup index)
          bakE,      \* experiment -> does jobs.bak exist
          last,      \* experiment -> the plan of its last run that ended without exception
          begun,     \* experiment -> jobs submitted by runs that did not end normally since then
          hist

vars == <<dirs, idx, bak, bakE, last, begun, hist>>

Init ==
  /\ dirs = [j \in Jobs |-> "none"]
  /\ idx = [e \in Xps |-> {}] /\ bak = [e \in Xps |-> {}] /\ bakE = [e \in Xps |-> FALSE]
  /\ last = [e \in Xps |-> {}] /\ begun = [e \in Xps |-> {}]
  /\ hist = <<>>

Outcome(j) == IF j \in Fails THEN "failed" ELSE "done"
(* a submitted job runs unless its success marker exists; a failed one is run again *)
AfterRun(S) == [j \in Jobs |-> IF j \in S /\ dirs[j] # "done" THEN Outcome(j) ELSE dirs[j]]

Snapshot(d, i, b, e) == [dirs |-> d, idx |-> i, bak |-> b, bakE |-> e]

(* experiment run: enter (links move to the backup), submit S, leave *)
(* a run in GENERATE_ONLY mode that ends normally: the job directories are written, nothing is run, and neither the
   index nor its backup is touched (only a NORMAL run moves links or drops the backup) *)
RunGen(e, S) ==
  LET d1 == [j \in Jobs |-> IF j \in S /\ dirs[j] = "none" THEN "gen" ELSE dirs[j]]
  IN /\ dirs' = d1
     /\ UNCHANGED <<idx, bak, bakE, last, begun>>
     /\ hist' = Append(hist, [a |-> "run", xp |-> e, jobs |-> S, how |-> "gen", st |-> Snapshot(d1, idx, bak, bakE)])

Run(e, S, how) ==
  LET b1 == bak[e] \cup idx[e]                       \* __enter__: move / drop duplicates
      d1 == AfterRun(S)
  IN /\ dirs' = d1
     /\ idx' = [idx EXCEPT ![e] = S]
     /\ IF how = "ok"
        THEN /\ bak' = [bak EXCEPT ![e] = {}] /\ bakE' = [bakE EXCEPT ![e] = FALSE]
             /\ last' = [last EXCEPT ![e] = S] /\ begun' = [begun EXCEPT ![e] = {}]
        ELSE /\ bak' = [bak EXCEPT ![e] = b1] /\ bakE' = [bakE EXCEPT ![e] = TRUE]
             /\ begun' = [begun EXCEPT ![e] = @ \cup S] /\ UNCHANGED last
     /\ hist' = Append(hist, [a |-> "run", xp |-> e, jobs |-> S, how |-> how,
                             st |-> Snapshot(d1, idx', bak', bakE')])

Finished(j) == dirs[j] \in {"done", "failed"}
Linked(e) == {j \in idx[e] : dirs[j] # "none"}        \* links that resolve to a directory

(* jobs clean --filter ... [--experiment e] [--perform]; sel = jobs selected by the filter *)
JobsClean(sel, e, perform) ==
  LET blocked == (\E y \in Xps : bakE[y]) /\ ~perform
      target == {j \in Jobs : Finished(j) /\ j \in sel /\ (e = "" \/ j \in Linked(e))}
      removed == IF perform /\ ~blocked THEN target ELSE {}
      d1 == [j \in Jobs |-> IF j \in removed THEN "none" ELSE dirs[j]]
  IN /\ dirs' = d1
     /\ hist' = Append(hist, [a |-> "clean", sel |-> sel, xp |-> e, perform |-> perform, removed |-> removed,
                             st |-> Snapshot(d1, idx, bak, bakE)])
     /\ UNCHANGED <<idx, bak, bakE, last, begun>>

(* orphans [--clean] [--ignore-old] *)
Referenced(ignoreOld) == UNION {Linked(e) \cup (IF ignoreOld THEN {} ELSE {j \in bak[e] : dirs[j] # "none"}) : e \in Xps}
Orphans(clean, ignoreOld) ==
  LET rep == {j \in Jobs : dirs[j] # "none"} \ Referenced(ignoreOld)
      d1 == [j \in Jobs |-> IF clean /\ j \in rep THEN "none" ELSE dirs[j]]
  IN /\ dirs' = d1
     /\ hist' = Append(hist, [a |-> "orphans", clean |-> clean, ignoreOld |-> ignoreOld, reported |-> rep,
                             st |-> Snapshot(d1, idx, bak, bakE)])
     /\ UNCHANGED <<idx, bak, bakE, last, begun>>

(* somebody's scheduler is running the job again: pid file, no marker *)
MarkRunning(j) ==
  /\ dirs[j] \in {"done", "failed"}
  /\ dirs' = [dirs EXCEPT ![j] = "running"]
  /\ hist' = Append(hist, [a |-> "running", job |-> j, st |-> Snapshot(dirs', idx, bak, bakE)])
  /\ UNCHANGED <<idx, bak, bakE, last, begun>>

Plans == {S \in SUBSET Jobs : S # {}}
Next ==
  \/ \E e \in Xps, S \in Plans, how \in {"ok", "exc", "kill"} : Run(e, S, how)
  \/ \E e \in Xps, S \in Plans : RunGen(e, S)
  \/ \E sel \in SUBSET Jobs, e \in Xps \cup {""}, perform \in BOOLEAN : JobsClean(sel, e, perform)
  \/ \E clean, ignoreOld \in BOOLEAN : Orphans(clean, ignoreOld)
  \/ \E j \in Jobs : MarkRunning(j)

Spec == Init /\ [][Next]_vars
(* focused families for the simulation mode (histories in which the index, its backup and `orphans`, resp. the cleaning
   commands, interact more often than in uniformly random histories) *)
NextRuns ==
  \/ \E e \in Xps, S \in Plans, how \in {"ok", "exc", "kill"} : Run(e, S, how)
  \/ \E e \in Xps, S \in Plans : RunGen(e, S)
  \/ \E clean, ignoreOld \in BOOLEAN : Orphans(clean, ignoreOld)
SpecRuns == Init /\ [][NextRuns]_vars
NextClean ==
  \/ \E e \in Xps, S \in Plans, how \in {"ok", "exc"} : Run(e, S, how)
  \/ \E sel \in SUBSET Jobs, e \in Xps \cup {""}, perform \in BOOLEAN : JobsClean(sel, e, perform)
  \/ \E j \in Jobs : MarkRunning(j)
SpecClean == Init /\ [][NextClean]_vars
LevelBound == TLCGet("level") <= Depth
View == <<dirs, idx, bak, bakE, last, begun>>

(* ------------------------- properties (C16, C19) ------------------------- *)
(* C16: a run that ends without exception leaves exactly its plan in the index and no backup *)
IndexExact == [][\A e \in Xps, S \in Plans : Run(e, S, "ok") => (idx'[e] = S /\ ~bakE'[e] /\ bak'[e] = {})]_vars
(* C16: otherwise the previous index is kept as backup *)
BackupKept == \A e \in Xps : bakE[e] => (last[e] \cup begun[e]) \subseteq (idx[e] \cup bak[e])
(* C16: jobs of the last completed plan and jobs the aborted runs had begun are never reported as orphans *)
NoPlanJobOrphaned ==
  ({j \in Jobs : dirs[j] # "none"} \ Referenced(FALSE)) \cap UNION {last[e] \cup begun[e] \cup idx[e] : e \in Xps} = {}
(* C19: orphans --clean removes exactly the unreferenced directories *)
OrphansExact == [][\A c, i \in BOOLEAN : Orphans(c, i) =>
                     {j \in Jobs : dirs[j] # "none" /\ dirs'[j] = "none"} = (IF c THEN {j \in Jobs : dirs[j] # "none"} \ Referenced(i) ELSE {})]_vars
(* C19: cleaning never removes a running or an unselected job, and nothing without --perform *)
CleanSafe == [][\A sel \in SUBSET Jobs, e \in Xps \cup {""}, p \in BOOLEAN : JobsClean(sel, e, p) =>
                  \A j \in Jobs : (dirs[j] # "none" /\ dirs'[j] = "none") => (Finished(j) /\ p /\ j \in sel /\ dirs[j] # "running")]_vars

Emit == Len(hist) = Depth => PrintT(<<"BEH", ToJson(hist)>>)
=============================================================================
