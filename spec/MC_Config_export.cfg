SPECIFICATION Spec
CONSTANT FixF1 = TRUE
CONSTANT Family = "all"
CONSTANT Depth = 3
CONSTRAINT LevelBound
INVARIANT Emit
CHECK_DEADLOCK FALSE
