------------------------------ MODULE XpmAdopt ------------------------------
(* The look-up of a job left by an earlier run of the experiment, at the grain of the file-system and process-table   *)
(* accesses of the scheduler (Scheduler.aio_submit -> CommandLineJob.aio_process -> Process.fromDefinition ->         *)
(* PsutilProcess), against the last steps of that job's own process (TaskRunner: marker, then cleanup: pid file,      *)
(* locks, exit).  The two run in different processes: every access of the scheduler is a step of its own, and the     *)
(* orphan job can take any of its steps in between.                                                                   *)
(*                                                                                                                    *)
(* scheduler (base.py / commandline.py)             orphan job process (run.py)                                       *)
(*   done1    if job.donepath.exists()                JMark    donepath.touch() / failedpath.write_text()             *)
(*   pidfile  if self.pidpath.is_file()               JUnpid   cleanup: pidfile.unlink()                              *)
(*   pidread  json.loads(self.pidpath.read_text())    JExit    locks released, the process leaves                     *)
(*   procopen psutil.Process(pid)                     JKilled  SIGKILL / OOM: no marker, pid file stays               *)
(*   alive    p.aio_isrunning()                                                                                       *)
(*   wait     await process.aio_code()                LOpen    (another scheduler launches the job) pid file opened: empty  *)
(*                                                    LWrite   ... and written                                             *)
(*   done2    if job.donepath.exists()                                                                                *)
(*                                                                                                                    *)
(* Decisions: "done" (state DONE, nothing launched), "error" (adopted, ended without success marker: state ERROR,     *)
(* nothing launched), "launch" (aio_start), "crash" (aio_submit raised).                                              *)
EXTENDS Naturals, Sequences, TLC, Json

CONSTANTS Outcomes,      \* how the orphan ends: subset of {"ok", "fail", "killed"}
          SecondCheck,   \* TRUE: the success marker is looked at again after the process look-up (the code as it is)
          GuardedRead,   \* TRUE: a pid file that disappears between is_file() and read_text(), or is still empty, means "no process"
          Launching      \* TRUE: the job may also be in the hands of another scheduler that is launching it (pid file being written)

VARIABLES jpc,       \* "spawned" | "pidopen" (being launched by another scheduler) | "run" (in its body) | "marked" | "unpid" | "gone"
          outcome,   \* chosen at the start, revealed by the job's steps
          done, failed,         \* the marker files of the job directory
          pidf,                 \* the pid file: "absent" | "empty" (opened for writing, nothing written yet) | "written"
          sawempty,             \* the scheduler looked at the pid file of a job being launched before it was written (absent or empty)
          alive,     \* the process table
          spc,       \* next access of the scheduler
          found,     \* aio_process() returned a process
          noted,     \* the first look at the success marker found it
          decision,  \* "none" until the scheduler has decided
          hist       \* labels of the steps taken (export of behaviours; not read by any action)

vars == <<jpc, outcome, done, failed, pidf, sawempty, alive, spc, found, noted, decision, hist>>

Init ==
  /\ outcome \in Outcomes
  /\ jpc \in {"run", "gone"} \cup (IF Launching THEN {"spawned"} ELSE {})
          \* "gone": the job had already ended when the experiment was run again; "spawned": another scheduler is launching it
  /\ \/ jpc = "run" /\ done = FALSE /\ failed = FALSE /\ pidf = "written" /\ alive = TRUE
     \/ jpc = "spawned" /\ done = FALSE /\ failed = FALSE /\ pidf = "absent" /\ alive = TRUE
     \/ jpc = "gone" /\ outcome = "ok" /\ done = TRUE /\ failed = FALSE /\ pidf = "absent" /\ alive = FALSE
     \/ jpc = "gone" /\ outcome = "fail" /\ done = FALSE /\ failed = TRUE /\ pidf = "absent" /\ alive = FALSE
     \/ jpc = "gone" /\ outcome = "killed" /\ done = FALSE /\ failed = FALSE /\ pidf = "written" /\ alive = FALSE
  /\ sawempty = FALSE
  /\ spc = "done1" /\ found = FALSE /\ noted = FALSE /\ decision = "none" /\ hist = <<jpc>>

Log(l) == hist' = Append(hist, l)

(* ---- the orphan job process *)
JMark ==
  /\ jpc = "run" /\ outcome \in {"ok", "fail"}
  /\ jpc' = "marked"
  /\ done' = (outcome = "ok") /\ failed' = (outcome = "fail")
  /\ Log("JMark") /\ UNCHANGED <<outcome, pidf, sawempty, alive, spc, found, noted, decision>>
JUnpid ==
  /\ jpc = "marked" /\ jpc' = "unpid" /\ pidf' = "absent"
  /\ Log("JUnpid") /\ UNCHANGED <<outcome, done, failed, sawempty, alive, spc, found, noted, decision>>
JExit ==
  /\ jpc = "unpid" /\ jpc' = "gone" /\ alive' = FALSE
  /\ Log("JExit") /\ UNCHANGED <<outcome, done, failed, pidf, sawempty, spc, found, noted, decision>>
JKilled ==
  /\ jpc = "run" /\ outcome = "killed" /\ jpc' = "gone" /\ alive' = FALSE
  /\ Log("JKilled") /\ UNCHANGED <<outcome, done, failed, pidf, sawempty, spc, found, noted, decision>>
(* the other scheduler, inside its launch block (job lock held): open(pid file, "w"), json.dump, close *)
LOpen ==
  /\ jpc = "spawned" /\ jpc' = "pidopen" /\ pidf' = "empty"
  /\ Log("LOpen") /\ UNCHANGED <<outcome, done, failed, sawempty, alive, spc, found, noted, decision>>
LWrite ==
  /\ jpc = "pidopen" /\ jpc' = "run" /\ pidf' = "written"
  /\ Log("LWrite") /\ UNCHANGED <<outcome, done, failed, sawempty, alive, spc, found, noted, decision>>

(* ---- the scheduler of the new run *)
Goto(l) == spc' = l /\ UNCHANGED <<found, noted, decision>>
Decide(d) == spc' = "end" /\ decision' = d /\ UNCHANGED <<found, noted>>
Quiet == UNCHANGED <<jpc, outcome, done, failed, pidf, alive>>
Seen == UNCHANGED sawempty
Final == IF done THEN Decide("done") ELSE IF found THEN Decide("error") ELSE Decide("launch")

SDone1 == spc = "done1" /\ Log("done?") /\ Quiet /\ Seen /\ spc' = "pidfile" /\ noted' = done /\ UNCHANGED <<found, decision>>
          \* (DONE is only noted here: the look-up of the process follows in any case)
SPidFile == spc = "pidfile" /\ Log("pidfile?") /\ Quiet /\ sawempty' = (sawempty \/ (pidf = "absent" /\ jpc = "spawned"))
            /\ IF pidf # "absent" THEN Goto("pidread") ELSE Goto("done2")
SPidRead == spc = "pidread" /\ Log("pidread") /\ Quiet /\ sawempty' = (sawempty \/ pidf = "empty")
            /\ IF pidf = "written" THEN Goto("procopen") ELSE IF GuardedRead THEN Goto("done2") ELSE Decide("crash")
               \* (absent: FileNotFoundError; empty: json.JSONDecodeError)
SProcOpen == spc = "procopen" /\ Log("procopen") /\ Quiet /\ Seen /\ IF alive THEN Goto("alive") ELSE Goto("done2")
SAlive == spc = "alive" /\ Log("alive?") /\ Quiet /\ Seen
          /\ IF alive THEN spc' = "wait" /\ found' = TRUE /\ UNCHANGED <<noted, decision>> ELSE Goto("done2")
SWait == spc = "wait" /\ ~alive /\ Log("waited") /\ Quiet /\ Seen /\ Goto("done2")
SDone2 == spc = "done2" /\ Quiet /\ Seen
          /\ IF SecondCheck THEN Log("done?") /\ Final
             ELSE UNCHANGED hist /\ (IF found THEN Final ELSE IF noted THEN Decide("done") ELSE Decide("launch"))
                  \* (deviation for the demonstration: the marker only tells the result of an adopted process)

Ended == spc = "end" /\ jpc = "gone" /\ UNCHANGED vars

Next == LOpen \/ LWrite \/ JMark \/ JUnpid \/ JExit \/ JKilled \/ SDone1 \/ SPidFile \/ SPidRead \/ SProcOpen \/ SAlive \/ SWait \/ SDone2 \/ Ended
Spec == Init /\ [][Next]_vars

(* ---- what the user relies on (C11: adopted rather than relaunched, finished ones not repeated; C05: a job whose      *)
(*      success marker exists is never launched again)                                                                *)
TypeOK == /\ jpc \in {"spawned", "pidopen", "run", "marked", "unpid", "gone"} /\ pidf \in {"absent", "empty", "written"} /\ decision \in {"none", "done", "error", "launch", "crash"}
          /\ spc \in {"done1", "pidfile", "pidread", "procopen", "alive", "wait", "done2", "end"}
Decides(d) == decision = "none" /\ decision' = d
NoRelaunchOfSuccess == [][Decides("launch") => ~done']_vars
NoRelaunchOfRunning == [][Decides("launch") => (jpc' # "run" \/ sawempty')]_vars
   \* (the corner left open: a job that another scheduler was launching at that very moment -- its pid file absent or empty
   \*  when looked at -- is launched a second time; the second script waits for the run lock and finds the success marker)
TruthfulDone == decision = "done" => done /\ outcome = "ok"
TruthfulError == decision = "error" => ~done /\ jpc = "gone"
NoCrash == decision # "crash"
(* a job that can still succeed is never given up: "error" only once it has ended without success *)

Terminal == spc = "end" /\ jpc = "gone"
Emit == Terminal => PrintT(<<"BEH", ToJson([out |-> outcome, hist |-> hist, decision |-> decision])>>)
=============================================================================
