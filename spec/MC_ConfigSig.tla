---------------------------- MODULE MC_ConfigSig ----------------------------
(* C02 / C03 at the level of the model: over bounded families of configurations the byte stream fed to the
   hash and the declarative signature determine each other (Enc(x) = Enc(y) <=> Sig(x) = Sig(y)). *)
EXTENDS XpmConfig

CONSTANT Small
VARIABLE fam

Base(cls, vals) == [cls |-> cls, vals |-> vals, meta |-> "none", pre |-> <<>>, init |-> <<>>, task |-> "0"]

(* ---- structured scalar values (class V) ---- *)
Ints == {0, 1}
ListsInt == {<<>>} \cup {<<<<"int", a>>>> : a \in Ints} \cup {<<<<"int", a>>, <<"int", b>>>> : a, b \in Ints}
LL == {<<>>} \cup {<<<<"list", x>>>> : x \in ListsInt} \cup {<<<<"list", x>>, <<"list", y>>>> : x, y \in ListsInt}
SubSeqs(ks) == {SelectSeq(ks, LAMBDA k : k \in S) : S \in SUBSET Range(ks)}
DictsOver(ks, Vals) == UNION {{[i \in DOMAIN q |-> <<q[i], f[q[i]]>>] : f \in [Range(q) -> Vals]} : q \in SubSeqs(ks)}
DS == DictsOver(<<"a", "ab", "b">>, {<<"int", a>> : a \in Ints})
DD == DictsOver(<<"a", "b">>, {<<"dict", x>> : x \in DictsOver(<<"a", "b">>, {<<"int", a>> : a \in Ints})})
Strs == {"", "a", "b", "ab"}

VNode(dd, ds, li, ll, s1, s2) ==
  Base("V", ("dd" :> <<"dict", dd>>) @@ ("ds" :> <<"dict", ds>>) @@ ("li" :> <<"list", li>>) @@ ("ll" :> <<"list", ll>>)
             @@ ("s1" :> <<"str", s1>>) @@ ("s2" :> <<"str", s2>>))

ValFam == {("1" :> VNode(<<>>, <<>>, li, ll, "", "")) : li \in ListsInt, ll \in LL}
            \cup {("1" :> VNode(dd, ds, <<>>, <<>>, "", "")) : dd \in DD, ds \in (IF Small THEN {<<>>, <<<<"a", <<"int", 1>>>>>>} ELSE DS)}
            \cup {("1" :> VNode(<<>>, <<>>, li, <<>>, s1, s2)) : li \in ListsInt, s1 \in Strs, s2 \in Strs}
            \cup {("1" :> VNode(<<>>, ds, li, <<>>, s1, "")) : ds \in DS, li \in ListsInt, s1 \in Strs}

(* ---- structure: a root K and a second node held in every possible way ---- *)
KVals(a, b, c, d, gg, l, m, o) ==
  ("a" :> <<"int", a>>) @@ ("b" :> <<"int", b>>) @@ ("c" :> c) @@ ("d" :> <<"dict", d>>) @@ ("e" :> <<"none">>) @@ ("f" :> <<"none">>)
    @@ ("g" :> gg) @@ ("l" :> <<"list", l>>) @@ ("m" :> <<"int", m>>) @@ ("o" :> o) @@ ("s" :> <<"none">>) @@ ("v" :> <<"int", 3>>)
Ref2 == <<"cfg", "2">>
Second(cls, a, c, meta) ==
  [ cls |-> cls,
    vals |-> IF cls = "K" THEN KVals(a, 5, c, <<>>, <<"none">>, <<>>, 0, <<"int", 9>>)
             ELSE ("a" :> <<"int", a>>) @@ ("c" :> c) @@ ("v" :> <<"int", 4>>),
    meta |-> meta, pre |-> <<>>, init |-> <<>>, task |-> "0" ]

StructFam ==
  { ("1" :> Base("K", KVals(1, b, c, d, gg, l, m, o))) @@ ("2" :> Second(cls2, a2, c2, meta2)) :
      b \in (IF Small THEN {5} ELSE {5, 6}), c \in {<<"none">>, Ref2}, d \in {<<>>, <<<<"a", Ref2>>>>, <<<<"b", Ref2>>>>, <<<<"a", Ref2>>, <<"b", Ref2>>>>},
      gg \in {<<"none">>, Ref2}, l \in (IF Small THEN {<<>>, <<Ref2>>} ELSE {<<>>, <<Ref2>>, <<Ref2, Ref2>>}), m \in (IF Small THEN {0} ELSE {0, 1}), o \in (IF Small THEN {<<"int", 9>>, <<"none">>} ELSE {<<"int", 9>>, <<"none">>, <<"int", 1>>}),
      cls2 \in {"K", "K2", "K2Old", "K2Older"}, a2 \in {0, 1}, c2 \in {<<"none">>, <<"cfg", "1">>, Ref2}, meta2 \in {"none", "true", "false"} }

Fam == IF fam = "val" THEN ValFam ELSE StructFam

EncOf(x) == Canonical(x, "1")
SigOf(x) == Sig(x, "1")

Init == fam \in {"val", "struct"}
Next == UNCHANGED fam
Spec == Init /\ [][Next]_fam

(* the flat stream determines the nested signature and conversely *)
SigEncBijection ==
  LET E == {EncOf(x) : x \in Fam}
      S == {SigOf(x) : x \in Fam}
      P == {<<SigOf(x), EncOf(x)>> : x \in Fam}
  IN /\ PrintT(<<"FAMILY", fam, Cardinality(Fam), Cardinality(E), Cardinality(S), Cardinality(P)>>)
     /\ Cardinality(E) = Cardinality(P) /\ Cardinality(S) = Cardinality(P)

(* a deprecated class hashes like its replacement (C20) *)
DeprecatedSame ==
  fam = "struct" =>
    \A x \in {y \in StructFam : y["2"].cls \in {"K2Old", "K2Older"}} :       \* (K2Older: deprecated name of a deprecated name)
        EncOf([x EXCEPT !["2"].cls = "K2"]) = EncOf(x)
=============================================================================
