SPECIFICATION MCSpec
CONSTANT Family = "pinnedF2"
INVARIANT TypeOK
INVARIANT OneBodyAtATime
INVARIANT RegistryDedup
INVARIANT SuccessfulBodyAtMostOnce
INVARIANT ResultIsFinal
INVARIANT WaitOnlyWhenAllFinal
INVARIANT CounterNonNegative
INVARIANT ExitReportsFailureIffFailed
INVARIANT FailedDependentsCancelled
INVARIANT IndependentJobsRun
INVARIANT Capacity
INVARIANT RunningUnderCapacity
INVARIANT IdleTokenIsFull
PROPERTY NoEarlyLaunch
PROPERTY NoBodyAfterDone
PROPERTY NoLaunchWhenDoneAtSubmit
PROPERTY FinalAbsorbing
PROPERTY TruthfulFinal
CHECK_DEADLOCK TRUE
