SPECIFICATION Spec
CONSTANT FixF1 = TRUE
CONSTANT FixF18 = TRUE
CONSTANT Family = "all"
CONSTANT Depth = 6
INVARIANT Emit
CHECK_DEADLOCK FALSE
