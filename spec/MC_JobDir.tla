----------------------------- MODULE MC_JobDir -----------------------------
EXTENDS XpmJobDir
(* launches are only possible through the launcher protocol or directly (a re-run of the script) *)
MCInit == Init /\ done = FALSE
MCSpec == MCInit /\ [][Next]_vars
=============================================================================
