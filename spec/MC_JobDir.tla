----------------------------- MODULE MC_JobDir -----------------------------
EXTENDS XpmJobDir
(* launches are only possible through the launcher protocol or directly (a re-run of the script) *)
MCInit == Init /\ done = FALSE
MCSpec == MCInit /\ [][Next]_vars
(* three launches: at most two of them receive a signal, and no launch fails on its own (the two-launch configuration
   explores every combination) *)
ThreeBound == Cardinality({p \in Procs : sig[p] # NONE}) <= 2 /\ \A p \in Procs : ~fails[p]
=============================================================================
