SPECIFICATION Spec
CONSTANT MaxLevel = 2
CONSTANT Values = {0, 500, 1000}
CONSTANT Descs = {"none", "a", "b"}
CONSTANT Depth = 4
CONSTANT NestedOnly = FALSE
CONSTANT PadOwnNumber = TRUE
CONSTANT ShrinkReported = TRUE
INVARIANT TypeOK
INVARIANT Consistent
CHECK_DEADLOCK FALSE
