SPECIFICATION Spec
CONSTANT MaxLevel = 2
CONSTANT Values = {0, 500, 1000}
CONSTANT Descs = {"none", "a", "b"}
CONSTANT Depth = 4
CONSTANT NestedOnly = FALSE
CONSTANT PadOwnNumber = FALSE
CONSTANT ShrinkReported = FALSE
INVARIANT Consistent
CHECK_DEADLOCK FALSE
