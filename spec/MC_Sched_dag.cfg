SPECIFICATION MCSpec
CONSTANT Family = "dag"
INVARIANT TypeOK
INVARIANT OneBodyAtATime
INVARIANT RegistryDedup
INVARIANT SuccessfulBodyAtMostOnce
INVARIANT ResultIsFinal
INVARIANT WaitOnlyWhenAllFinal
INVARIANT CounterNonNegative
INVARIANT StopOnlyOnRequest
INVARIANT ExitReportsFailureIffFailed
INVARIANT FailedDependentsCancelled
INVARIANT IndependentJobsRun
INVARIANT Capacity
INVARIANT RunningUnderCapacity
INVARIANT IdleTokenIsFull
PROPERTY NoEarlyLaunch
PROPERTY NoBodyAfterDone
PROPERTY NoLaunchWhenDoneAtSubmit
PROPERTY FinalAbsorbing
PROPERTY TruthfulFinal
PROPERTY EarlyReturnOnlyAfterStop
CHECK_DEADLOCK TRUE
