------------------------------ MODULE XpmJobDir ------------------------------
(***************************************************************************)
(* The job directory protocol: several launches of one generated job       *)
(* script (TaskRunner.run, src/experimaestro/run.py l.57-160) competing     *)
(* for the run lock, leaving .done / .failed / .pid markers, dying from     *)
(* SIGKILL / SIGTERM / SIGINT at any point.  The launcher side (lock,       *)
(* spawn, pid file, unlock: scheduler/base.py l.681-731 and                 *)
(* commandline.py l.286-307) is the `H*` actions.                           *)
(*                                                                         *)
(* Grain: one action per statement of TaskRunner.run / handle_error /       *)
(* cleanup that another process or a signal can observe.  The Python-level  *)
(* signal handler (handle_error) runs to completion in one step (at most    *)
(* one signal is delivered to each process); the second handle_error that   *)
(* `except SystemExit` runs afterwards is a step of its own, because it      *)
(* writes the failure marker after the run lock has been released.           *)
(***************************************************************************)
EXTENDS Naturals, Integers, Sequences, FiniteSets, TLC

CONSTANTS Procs,      \* process identifiers (launches of the same script)
          FixF6,      \* TRUE: the success path keeps the exit-time cleanup registered (repaired)
          FixF21      \* TRUE: a handled signal leaves with os._exit(1) (repaired); FALSE (pinned): with sys.exit(1), an
                      \* exception that is lost when the handler runs inside an at-fork callback of a forking task body

VARIABLES done, failedm, pidf, lock,      \* the job directory: markers and the run lock ("free", "H" = launcher, or a process)
          pc, ctx, termH, intH, reg, cleaned, rc, ret, sig,   \* per process
          fails, gated, gate,              \* per process: plan of the body
          begins, ends,                    \* history: body executions started / completed
          flags                            \* history: per process facts used by the invariants

vars == <<done, failedm, pidf, lock, pc, ctx, termH, intH, reg, cleaned, rc, ret, sig, fails, gated, gate, begins, ends, flags>>

NONE == "-"
Body == {"body", "body2"}
Alive(p) == pc[p] \notin {"none", "dead"}

Flag0 == [wroteFailed |-> FALSE, touchedDone |-> FALSE, removedPid |-> FALSE, sigInBody |-> FALSE,
          bodyAfterDone |-> FALSE, ownEnd |-> FALSE]

Init ==
  /\ done \in BOOLEAN /\ failedm \in BOOLEAN /\ pidf = FALSE /\ lock = "free"
  /\ pc = [p \in Procs |-> "none"] /\ ctx = [p \in Procs |-> "pre"]
  /\ termH = [p \in Procs |-> FALSE] /\ intH = [p \in Procs |-> FALSE]
  /\ reg = [p \in Procs |-> FALSE] /\ cleaned = [p \in Procs |-> FALSE]
  /\ rc = [p \in Procs |-> NONE] /\ ret = [p \in Procs |-> NONE] /\ sig = [p \in Procs |-> NONE]
  /\ fails \in [Procs -> BOOLEAN] /\ gated = [p \in Procs |-> FALSE] /\ gate = [p \in Procs |-> FALSE]
  /\ begins = 0 /\ ends = 0
  /\ flags = [p \in Procs |-> Flag0]

(* ---------------- launcher side ---------------- *)
HLock == lock = "free" /\ lock' = "H"
         /\ UNCHANGED <<done, failedm, pidf, pc, ctx, termH, intH, reg, cleaned, rc, ret, sig, fails, gated, gate, begins, ends, flags>>
HUnlock == lock = "H" /\ lock' = "free"
         /\ UNCHANGED <<done, failedm, pidf, pc, ctx, termH, intH, reg, cleaned, rc, ret, sig, fails, gated, gate, begins, ends, flags>>
Spawn(p) == pc[p] = "none" /\ pc' = [pc EXCEPT ![p] = "new"]
         /\ UNCHANGED <<done, failedm, pidf, lock, ctx, termH, intH, reg, cleaned, rc, ret, sig, fails, gated, gate, begins, ends, flags>>
PidWrite == pidf' = TRUE
         /\ UNCHANGED <<done, failedm, lock, pc, ctx, termH, intH, reg, cleaned, rc, ret, sig, fails, gated, gate, begins, ends, flags>>
GateOpen(p) == gate' = [gate EXCEPT ![p] = TRUE]
         /\ UNCHANGED <<done, failedm, pidf, lock, pc, ctx, termH, intH, reg, cleaned, rc, ret, sig, fails, gated, begins, ends, flags>>

(* ---------------- process death ---------------- *)
Die(p, code) ==
  /\ pc' = [pc EXCEPT ![p] = "dead"]
  /\ rc' = [rc EXCEPT ![p] = code]
  /\ lock' = IF lock = p THEN "free" ELSE lock     \* the OS drops the file lock

(* ---------------- TaskRunner.run, statement by statement ---------------- *)
Goto(p, l) == pc' = [pc EXCEPT ![p] = l]

(* interpreter exit: atexit callbacks (cleanup if still registered), then death with rc *)
ToAtexit(p, code) ==
  /\ rc' = [rc EXCEPT ![p] = code]
  /\ ctx' = [ctx EXCEPT ![p] = "fin"]
  /\ IF reg[p] THEN /\ pc' = [pc EXCEPT ![p] = "c0"] /\ ret' = [ret EXCEPT ![p] = "final"]
     ELSE /\ pc' = [pc EXCEPT ![p] = "final"] /\ UNCHANGED ret

Step(p) ==
  /\ Alive(p)
  /\ CASE pc[p] = "new" ->      \* atexit.register(self.cleanup)
            /\ Goto(p, "reg") /\ reg' = [reg EXCEPT ![p] = TRUE]
            /\ UNCHANGED <<done, failedm, pidf, lock, ctx, termH, intH, cleaned, rc, ret, begins, ends, flags>>
       [] pc[p] = "reg" ->      \* signal.signal(SIGTERM, handle_error)
            /\ Goto(p, "h1") /\ termH' = [termH EXCEPT ![p] = TRUE]
            /\ UNCHANGED <<done, failedm, pidf, lock, ctx, intH, reg, cleaned, rc, ret, begins, ends, flags>>
       [] pc[p] = "h1" ->       \* signal.signal(SIGINT, handle_error)
            /\ Goto(p, "h2") /\ intH' = [intH EXCEPT ![p] = TRUE]
            /\ UNCHANGED <<done, failedm, pidf, lock, ctx, termH, reg, cleaned, rc, ret, begins, ends, flags>>
       [] pc[p] = "h2" ->       \* try: chdir ...
            /\ Goto(p, "lockwait") /\ ctx' = [ctx EXCEPT ![p] = "try"]
            /\ UNCHANGED <<done, failedm, pidf, lock, termH, intH, reg, cleaned, rc, ret, begins, ends, flags>>
       [] pc[p] = "lockwait" -> \* lock.acquire(blocking=True)
            /\ lock = "free" /\ lock' = p /\ Goto(p, "locked")
            /\ UNCHANGED <<done, failedm, pidf, ctx, termH, intH, reg, cleaned, rc, ret, begins, ends, flags>>
       [] pc[p] = "locked" ->   \* if self.donepath.is_file()
            /\ IF done THEN Goto(p, "skip") ELSE Goto(p, "rmfailed")
            /\ UNCHANGED <<done, failedm, pidf, lock, ctx, termH, intH, reg, cleaned, rc, ret, begins, ends, flags>>
       [] pc[p] = "skip" ->     \* "Job already completed": run() returns, the script ends
            /\ ToAtexit(p, 0) /\ flags' = [flags EXCEPT ![p].ownEnd = (sig[p] = NONE)]
            /\ UNCHANGED <<done, failedm, pidf, lock, termH, intH, reg, cleaned, begins, ends>>
       [] pc[p] = "rmfailed" -> \* rmfile(self.failedpath); self.started = True
            /\ Goto(p, "prebody") /\ failedm' = FALSE
            /\ UNCHANGED <<done, pidf, lock, ctx, termH, intH, reg, cleaned, rc, ret, begins, ends, flags>>
       [] pc[p] = "postbody" -> \* signal.signal(SIGTERM, sigterm_handler)
            /\ Goto(p, "u1") /\ termH' = [termH EXCEPT ![p] = FALSE]
            /\ UNCHANGED <<done, failedm, pidf, lock, ctx, intH, reg, cleaned, rc, ret, begins, ends, flags>>
       [] pc[p] = "u1" ->       \* signal.signal(SIGINT, sigint_handler)
            /\ Goto(p, "u2") /\ intH' = [intH EXCEPT ![p] = FALSE]
            /\ UNCHANGED <<done, failedm, pidf, lock, ctx, termH, reg, cleaned, rc, ret, begins, ends, flags>>
       [] pc[p] = "u2" ->       \* atexit.unregister(self.cleanup) -- only when remove_cleanup (repaired)
            /\ Goto(p, "exit0") /\ reg' = [reg EXCEPT ![p] = IF FixF6 THEN @ ELSE FALSE]
            /\ UNCHANGED <<done, failedm, pidf, lock, ctx, termH, intH, cleaned, rc, ret, begins, ends, flags>>
       [] pc[p] = "exit0" ->    \* sys.exit(0), caught: self.donepath.touch()
            /\ Goto(p, "touched") /\ done' = TRUE /\ ctx' = [ctx EXCEPT ![p] = "exc"]
            /\ flags' = [flags EXCEPT ![p].touchedDone = TRUE]
            /\ UNCHANGED <<failedm, pidf, lock, termH, intH, reg, cleaned, rc, ret, begins, ends>>
       [] pc[p] = "touched" ->  \* raise: the interpreter exits with status 0
            /\ ToAtexit(p, 0) /\ flags' = [flags EXCEPT ![p].ownEnd = (sig[p] = NONE)]
            /\ UNCHANGED <<done, failedm, pidf, lock, termH, intH, reg, cleaned, begins, ends>>
       [] pc[p] = "he_write" -> \* handle_error(1): self.failedpath.write_text("1")
            /\ failedm' = TRUE /\ flags' = [flags EXCEPT ![p].wroteFailed = TRUE]
            /\ Goto(p, "c0") /\ ret' = [ret EXCEPT ![p] = "he_exit"]
            /\ UNCHANGED <<done, pidf, lock, ctx, termH, intH, reg, cleaned, rc, begins, ends>>
       [] pc[p] = "he_exit" ->  \* sys.exit(1) inside the except clause: propagates
            /\ ToAtexit(p, 1) /\ flags' = [flags EXCEPT ![p].ownEnd = (sig[p] = NONE)]
            /\ UNCHANGED <<done, failedm, pidf, lock, termH, intH, reg, cleaned, begins, ends>>
       [] pc[p] = "he2_write" -> \* second handle_error(1) of a handled signal: write_text, cleanup() (nothing left), sys.exit(1)
            /\ failedm' = TRUE /\ ToAtexit(p, 1)
            /\ UNCHANGED <<done, pidf, lock, termH, intH, reg, cleaned, begins, ends, flags>>
       (* cleanup(), statement by statement *)
       [] pc[p] = "c0" ->       \* if not self.cleaned
            /\ IF cleaned[p] THEN Goto(p, ret[p]) ELSE Goto(p, "c1")
            /\ UNCHANGED <<done, failedm, pidf, lock, ctx, termH, intH, reg, cleaned, rc, ret, begins, ends, flags>>
       [] pc[p] = "c1" ->       \* self.cleaned = True
            /\ Goto(p, "c2") /\ cleaned' = [cleaned EXCEPT ![p] = TRUE]
            /\ UNCHANGED <<done, failedm, pidf, lock, ctx, termH, intH, reg, rc, ret, begins, ends, flags>>
       [] pc[p] = "c2" ->       \* rmfile(self.pidfile)
            /\ Goto(p, "c3") /\ pidf' = FALSE /\ flags' = [flags EXCEPT ![p].removedPid = TRUE]
            /\ UNCHANGED <<done, failedm, lock, ctx, termH, intH, reg, cleaned, rc, ret, begins, ends>>
       [] pc[p] = "c3" ->       \* lock.release(); report_eoj()
            /\ Goto(p, ret[p]) /\ lock' = IF lock = p THEN "free" ELSE lock
            /\ UNCHANGED <<done, failedm, pidf, ctx, termH, intH, reg, cleaned, rc, ret, begins, ends, flags>>
       [] pc[p] = "final" ->    \* the process is gone
            /\ Die(p, rc[p])
            /\ UNCHANGED <<done, failedm, pidf, ctx, termH, intH, reg, cleaned, ret, begins, ends, flags>>
       [] OTHER -> FALSE
  /\ UNCHANGED <<sig, fails, gated, gate>>

(* the task body: its begin / end / failure are visible (shared log) *)
BodyBegin(p) ==
  /\ pc[p] = "prebody" /\ Goto(p, "body") /\ begins' = begins + 1
  /\ flags' = [flags EXCEPT ![p].bodyAfterDone = done]
  /\ UNCHANGED <<done, failedm, pidf, lock, ctx, termH, intH, reg, cleaned, rc, ret, sig, fails, gated, gate, ends>>
BodyGate(p) ==
  /\ pc[p] = "body" /\ (gated[p] => gate[p]) /\ Goto(p, "body2")
  /\ UNCHANGED <<done, failedm, pidf, lock, ctx, termH, intH, reg, cleaned, rc, ret, sig, fails, gated, gate, begins, ends, flags>>
BodyEnd(p) ==
  /\ pc[p] = "body2" /\ ~fails[p] /\ Goto(p, "postbody") /\ ends' = ends + 1
  /\ UNCHANGED <<done, failedm, pidf, lock, ctx, termH, intH, reg, cleaned, rc, ret, sig, fails, gated, gate, begins, flags>>
BodyFail(p) ==     \* the body raises: except Exception: handle_error(1, None)
  /\ pc[p] = "body2" /\ fails[p] /\ Goto(p, "he_write") /\ ctx' = [ctx EXCEPT ![p] = "exc"]
  /\ UNCHANGED <<done, failedm, pidf, lock, termH, intH, reg, cleaned, rc, ret, sig, fails, gated, gate, begins, ends, flags>>

(* ---------------- signals ---------------- *)
(* handle_error(signum) run to completion at the point of interruption *)
Handled(p) ==
  LET full == ~cleaned[p]          \* the nested cleanup() does something only the first time
  IN /\ failedm' = TRUE
     /\ cleaned' = [cleaned EXCEPT ![p] = TRUE]
     /\ pidf' = IF full THEN FALSE ELSE pidf
     /\ lock' = IF full /\ lock = p THEN "free" ELSE lock
     /\ flags' = [flags EXCEPT ![p].wroteFailed = TRUE,
                               ![p].removedPid = @ \/ full,
                               ![p].sigInBody = pc[p] \in Body]
     /\ \E sw \in BOOLEAN :       \* (pinned only: whether the interpreter happened to be inside an at-fork callback)
        IF FixF21
        THEN (* os._exit(1): no exception, no exit-time callback, nothing else is written *)
             /\ pc' = [pc EXCEPT ![p] = "final"] /\ rc' = [rc EXCEPT ![p] = 1]
             /\ UNCHANGED <<ctx, ret>>
        ELSE IF pc[p] \in Body /\ sw
        THEN (* pinned: the handler ran inside an at-fork callback of the task body (os.fork): its SystemExit is
                ignored and the body goes on -- with the failure marker written, the run lock and the pid file gone *)
             UNCHANGED <<pc, rc, ctx, ret>>
        ELSE IF ctx[p] = "fin"
        THEN (* inside an exit-time callback: SystemExit is swallowed or becomes the status *)
             /\ pc' = [pc EXCEPT ![p] = "final"]
             /\ rc' \in {[rc EXCEPT ![p] = rc[p]], [rc EXCEPT ![p] = 1]}
             /\ UNCHANGED <<ctx, ret>>
        ELSE IF ctx[p] = "try"
        THEN (* sys.exit(1) raised by the handler inside the try body is caught by `except SystemExit`, which
                calls handle_error(1) again: the failure marker is written a second time, AFTER the run lock
                was released by the first cleanup() -- another launch may have started in between *)
             /\ pc' = [pc EXCEPT ![p] = "he2_write"]
             /\ ctx' = [ctx EXCEPT ![p] = "exc"]
             /\ UNCHANGED <<rc, ret>>
        ELSE (* outside the try body sys.exit(1) propagates; then interpreter exit *)
             /\ rc' = [rc EXCEPT ![p] = 1]
             /\ ctx' = [ctx EXCEPT ![p] = "fin"]
             /\ IF reg[p] THEN /\ pc' = [pc EXCEPT ![p] = "c0"] /\ ret' = [ret EXCEPT ![p] = "final"]
                ELSE /\ pc' = [pc EXCEPT ![p] = "final"] /\ UNCHANGED ret

Signal(p, kind) ==
  /\ Alive(p) /\ sig[p] = NONE
  /\ sig' = [sig EXCEPT ![p] = kind]
  /\ CASE kind = "KILL" ->
            /\ Die(p, -9)
            /\ UNCHANGED <<done, failedm, pidf, ctx, termH, intH, reg, cleaned, ret, flags>>
       [] kind = "TERM" /\ ~termH[p] ->
            /\ Die(p, -15)
            /\ UNCHANGED <<done, failedm, pidf, ctx, termH, intH, reg, cleaned, ret, flags>>
       [] kind = "INT" /\ ~intH[p] ->
            (* KeyboardInterrupt: nothing catches it; exit-time callbacks run; status -2 *)
            IF ctx[p] = "fin"
            THEN /\ pc' = [pc EXCEPT ![p] = "final"] /\ rc' \in {[rc EXCEPT ![p] = rc[p]], [rc EXCEPT ![p] = -2]}
                 /\ UNCHANGED <<done, failedm, pidf, lock, ctx, termH, intH, reg, cleaned, ret, flags>>
            ELSE /\ ToAtexit(p, -2)
                 /\ UNCHANGED <<done, failedm, pidf, lock, termH, intH, reg, cleaned, flags>>
       [] OTHER ->
            /\ Handled(p)
            /\ UNCHANGED <<done, termH, intH, reg>>
  /\ UNCHANGED <<fails, gated, gate, begins, ends>>

Next ==
  \/ HLock \/ HUnlock \/ PidWrite
  \/ \E p \in Procs : Spawn(p) \/ GateOpen(p) \/ Step(p) \/ BodyBegin(p) \/ BodyGate(p) \/ BodyEnd(p) \/ BodyFail(p)
  \/ \E p \in Procs : \E k \in {"KILL", "TERM", "INT"} : Signal(p, k)

Spec == Init /\ [][Next]_vars

(* ---------------- properties (C05, C10) ---------------- *)
OneBodyAtATime == Cardinality({p \in Procs : pc[p] \in Body \cup {"postbody"}}) <= 1
NoBodyAfterDone == \A p \in Procs : ~flags[p].bodyAfterDone
LockHolderAlive == lock \in Procs => Alive(lock)
(* a success marker written by this launch means its body ran to completion *)
DoneOnlyIfBodyCompleted == \A p \in Procs : flags[p].touchedDone => ends >= 1
(* a termination signal received while the body runs leaves a failure marker, no success marker *)
HandledSignalInBody ==
  \A p \in Procs : (pc[p] = "dead" /\ flags[p].sigInBody) => (flags[p].wroteFailed /\ ~flags[p].touchedDone)
(* a job that ended on its own removes its process-id file *)
NoPidAfterOwnEnd ==
  \A p \in Procs : (pc[p] = "dead" /\ sig[p] = NONE) => flags[p].removedPid
TypeOK == lock \in Procs \cup {"free", "H"}
=============================================================================
