----------------------------- MODULE XpmDeprecated -----------------------------
(***************************************************************************)
(* Repair of job directories recorded under a former identifier             *)
(* (tools/jobs.py fix_deprecated, `experimaestro deprecated list --fix       *)
(* [--cleanup]`).  For every job of a deprecated task type:                  *)
(*   loc  : where the real directory is ("old" = under the former id,        *)
(*          "new" = moved under the new id)                                  *)
(*   link : what is at the new path when the directory is still old:         *)
(*          "none", "ok" (symbolic link to the old directory), "dangling"    *)
(***************************************************************************)
EXTENDS Naturals, Sequences, FiniteSets, TLC, Json

CONSTANTS Jobs, Depth,
          Fresh      \* jobs whose identifier has not changed (their directory already is where a resubmission looks)
VARIABLES loc, link, hist
vars == <<loc, link, hist>>

Init == /\ loc = [j \in Jobs |-> IF j \in Fresh THEN "new" ELSE "old"]
        /\ link \in {f \in [Jobs -> {"none", "ok", "dangling"}] : \A j \in Fresh : f[j] = "none"}
        /\ hist = <<[a |-> "init", loc |-> loc, link |-> link]>>

FixOne(l, k, fix, cleanup) ==
  (* returns <<loc', link'>> for one job *)
  LET k1 == IF cleanup /\ k = "ok" THEN "none" ELSE k            \* first pass: every link that resolves to a job is removed
  IN IF l = "new" THEN <<l, "none">>
     ELSE IF ~fix THEN <<l, k1>>
     ELSE LET k2 == IF k1 = "dangling" THEN "none" ELSE k1          \* a dangling link is replaced
          IN IF k2 = "ok" THEN <<l, k2>>
             ELSE IF cleanup THEN <<"new", "none">>                  \* params.json rewritten, directory renamed
             ELSE <<l, "ok">>                                        \* linked

Fix(fix, cleanup) ==
  /\ loc' = [j \in Jobs |-> FixOne(loc[j], link[j], fix, cleanup)[1]]
  /\ link' = [j \in Jobs |-> FixOne(loc[j], link[j], fix, cleanup)[2]]
  /\ hist' = Append(hist, [a |-> "fix", fix |-> fix, cleanup |-> cleanup, loc |-> loc', link |-> link'])

Next == Len(hist) <= Depth /\ \E f, c \in BOOLEAN : Fix(f, c)
Spec == Init /\ [][Next]_vars

Reachable(j) == loc[j] = "new" \/ link[j] = "ok"
(* C20: after a repair every former job is reachable under its new identifier *)
OldReachableUnderNew == [][\A c \in BOOLEAN : Fix(TRUE, c) => \A j \in Jobs : (loc'[j] = "new" \/ link'[j] = "ok")]_vars
(* repairing twice is repairing once *)
Idempotent == [][\A f, c \in BOOLEAN : Fix(f, c) =>
                   \A j \in Jobs : FixOne(loc'[j], link'[j], f, c) = <<loc'[j], link'[j]>>]_vars
(* what was reachable stays reachable when repairing *)
NeverLosesReach == [][\A c \in BOOLEAN : Fix(TRUE, c) => \A j \in Jobs : Reachable(j) => (loc'[j] = "new" \/ link'[j] = "ok")]_vars
(* a job whose identifier has not changed is left where it is *)
FreshUntouched == \A j \in Fresh : loc[j] = "new" /\ link[j] = "none"
Emit == Len(hist) = Depth + 1 => PrintT(<<"BEH", ToJson(hist)>>)
=============================================================================
