SPECIFICATION Spec
CONSTANT FixF1 = FALSE
CONSTANT FixF18 = TRUE
CONSTANT Family = "all"
CONSTANT Depth = 7
CONSTRAINT LevelBound
VIEW View
INVARIANT IdIsCanonical
INVARIANT SealClosed
PROPERTY SealedFrozen
CHECK_DEADLOCK FALSE
