SPECIFICATION Spec
CONSTANT Links = {"1", "2", "3"}
CONSTANT Order <- BakThenIdx
INVARIANT AllReferencedSeen
CHECK_DEADLOCK FALSE
