SPECIFICATION Spec
CONSTANT Links = {"1", "2", "3"}
CONSTANT Order <- IdxThenBak
INVARIANT AllReferencedSeen
CHECK_DEADLOCK FALSE
