--------------------------- MODULE XpmTokenFS_Trace ---------------------------
(***************************************************************************)
(* Validation of event logs of several real scheduler processes sharing a   *)
(* file-based token (engine E2-token: the real CounterToken, ipc lock,       *)
(* watchdog observer and reclaim threads; guarded hooks emit one event per   *)
(* statement visible to other processes, into one O_APPEND file).            *)
(***************************************************************************)
EXTENDS XpmTokenFS, Json, IOUtils, TLCExt

VARIABLES tid, l
Traces == JsonDeserialize(IOEnv.TRACE_FILE)
TheTrace == Traces[tid].ev
Ev == TheTrace[l]
tvars == <<vars, tid, l>>

IsEvent(a) == l <= Len(TheTrace) /\ Ev.e = a /\ l' = l + 1 /\ UNCHANGED tid
Stutter == UNCHANGED vars

(* process start: CounterToken.__init__ recounts under the ipc lock *)
(* ... after having written the total it was given into token.info (under the same lock; logged just before the write) *)
DeclareWrite(p, n) ==
  /\ alive[p] /\ ipc = "free" /\ cs[p] = None
  /\ info' = [info EXCEPT !.total = n, !.ptotal[p] = n, !.max = IF n > @ THEN n ELSE @,
                          !.pending = [q \in Procs |-> IF q # p /\ alive[q] /\ obs[q] /\ n # info.total THEN TRUE ELSE @[q]]]
  /\ UNCHANGED <<files, ipc, cs, alive, obs, avail, cache, watching, pend, jobst, dstat, notify, reclaiming, wl>>
StartProc(p) ==
  /\ alive[p] /\ ipc = "free" /\ cs[p] = None
  /\ (Readable \/ FixF5)
  /\ avail' = [avail EXCEPT ![p] = info.total - Sum({j \in OnDisk : files[j] = "written"})]
  /\ info' = [info EXCEPT !.ptotal[p] = info.total, !.started[p] = "counted"]
  /\ cache' = [cache EXCEPT ![p] = {j \in OnDisk : files[j] = "written"}]
  /\ watching' = [watching EXCEPT ![p] = @ \cup {j \in OnDisk : files[j] = "written"}]
  /\ files' = [j \in Jobs |-> IF files[j] = "empty" THEN "absent" ELSE files[j]]
  /\ obs' = [obs EXCEPT ![p] = FALSE]       \* (the directory is not watched yet: StartWatch, event tok.watching)
  /\ UNCHANGED <<ipc, cs, alive, pend, jobst, dstat, notify, reclaiming, wl>>

(* release: the ipc lock is taken and the directory recounted (no event between the two) *)
RelLockRecount(p, j) ==
  /\ alive[p] /\ cs[p] = None /\ ipc = "free" /\ Owner[j] = p /\ jobst[j] \in {"aborting", "ended"}
  /\ IF Readable \/ FixF5
     THEN /\ ipc' = p /\ cs' = [cs EXCEPT ![p] = [kind |-> "rel", job |-> j, step |-> "counted"]]
          /\ avail' = [avail EXCEPT ![p] = info.total - Sum({k \in OnDisk : files[k] = "written"})]
          /\ info' = [info EXCEPT !.ptotal[p] = info.total]
          /\ cache' = [cache EXCEPT ![p] = {k \in OnDisk : files[k] = "written"}]
          /\ watching' = [watching EXCEPT ![p] = @ \cup ({k \in OnDisk : files[k] = "written"} \ cache[p])]
          /\ files' = [k \in Jobs |-> IF files[k] = "empty" THEN "absent" ELSE files[k]]
     ELSE UNCHANGED <<ipc, cs, avail, cache, watching, files, info>>
  /\ UNCHANGED <<alive, obs, pend, jobst, dstat, notify, reclaiming, wl>>

(* the reclaim thread finds that the job was started again since: the token file is not its business any more *)
ReclaimKeep(p, j) ==
  /\ alive[p]
  /\ watching' = [watching EXCEPT ![p] = @ \ {j}] /\ reclaiming' = [reclaiming EXCEPT ![p] = @ \ {j}]
  /\ UNCHANGED <<files, ipc, cs, alive, obs, avail, cache, pend, jobst, dstat, notify, wl, info>>

(* an observer reports that it has cached a foreign token file and started a reclaim thread for it; the file was
   read before the report, so it may have been deleted in between (the stale entry is what the code keeps) *)
CachedEv(p, j) ==
  /\ alive[p] /\ obs[p] /\ cs[p] = None /\ j \notin cache[p]
  /\ cache' = [cache EXCEPT ![p] = @ \cup {j}] /\ watching' = [watching EXCEPT ![p] = @ \cup {j}]
  /\ UNCHANGED <<files, ipc, cs, alive, obs, avail, pend, jobst, dstat, notify, reclaiming, wl, info>>

(* the token cannot even be opened: an unparsable file left by a dead writer (pinned behaviour) *)
StartFails(p) == /\ ~Readable /\ ~FixF5 /\ UNCHANGED vars

Logged ==
  \/ IsEvent("tok.info.write") /\ DeclareWrite(Ev.p, Ev.total)
  \/ IsEvent("tok.init") /\ StartProc(Ev.p) /\ avail'[Ev.p] = Ev.available /\ info.total = Ev.total
  \/ IsEvent("tok.evt.info") /\ OnInfo(Ev.p) /\ info'.ptotal[Ev.p] = Ev.total /\ Ev.delta = info.total - info.ptotal[Ev.p]
  (* ... the observer exists from the call that watches the directory on, the event tok.watching is logged after the count that
     follows: a modification of token.info can be handled in between (that handler takes no lock); what it computes is
     replaced by that count *)
  \/ /\ IsEvent("tok.evt.info") /\ alive[Ev.p] /\ info.started[Ev.p] = "counted"
     /\ Ev.delta = info.total - info.ptotal[Ev.p]
     /\ info' = [info EXCEPT !.ptotal[Ev.p] = info.total, !.pending[Ev.p] = FALSE]
     /\ avail' = [avail EXCEPT ![Ev.p] = @ + (info.total - info.ptotal[Ev.p])]
     /\ UNCHANGED <<files, ipc, cs, alive, obs, cache, watching, pend, jobst, dstat, notify, reclaiming, wl>>
  \/ IsEvent("tok.watching") /\ StartWatch(Ev.p) /\ (FixF27 => avail'[Ev.p] = Ev.available)
  \/ IsEvent("h.start") /\ Stutter
  \/ IsEvent("tok.init.error") /\ StartFails(Ev.p)
  \/ IsEvent("h.resubmit") /\ Resubmit(Ev.job, Ev.count)
  \/ IsEvent("h.submit") /\ Stutter          \* (the call; its two steps are logged by the scheduler itself)
  \/ IsEvent("sched.dep.add") /\ SubmitAdd(Ev.job)
  \/ IsEvent("sched.dep.check") /\ SubmitCheck(Ev.job) /\ dstat'[Ev.job] = Ev.status
  \/ IsEvent("tok.acq.lock") /\ Lock(Ev.p, "acq", Ev.job)
  \/ IsEvent("tok.acq.count") /\ Recount(Ev.p) /\ avail'[Ev.p] = Ev.available
  \/ IsEvent("tok.acq.fail") /\ AcqFail(Ev.p)
  \/ IsEvent("tok.create.open") /\ cs[Ev.p].job = Ev.job /\ CreateOpen(Ev.p)
  \/ IsEvent("tok.create.write") /\ cs[Ev.p].job = Ev.job /\ CreateWrite(Ev.p)
  \/ IsEvent("tok.acq.ok") /\ AcqOk(Ev.p) /\ avail'[Ev.p] = Ev.available
  \/ IsEvent("tok.rel.lock") /\ RelLockRecount(Ev.p, Ev.job)
  \/ IsEvent("tok.rel.ok") /\ RelOk(Ev.p) /\ avail'[Ev.p] = Ev.available
  (* the release found its file gone: the recount (which has no event of its own: tok.rel.lock is logged before it) came after
     the deletion, so it is placed here -- nobody else creates or removes a written token file while the ipc lock is held,
     except reclaim threads *)
  \/ IsEvent("tok.rel.missing") /\ cs' = [cs EXCEPT ![Ev.p] = None] /\ ipc' = "free" /\ ~Present(Ev.job)
        /\ jobst' = [jobst EXCEPT ![Ev.job] = "released"]
        /\ avail' = [avail EXCEPT ![Ev.p] = info.total - Sum({k \in OnDisk : files[k] = "written"})]
        /\ info' = [info EXCEPT !.ptotal[Ev.p] = info.total]
        /\ cache' = [cache EXCEPT ![Ev.p] = {k \in OnDisk : files[k] = "written"}]
        /\ watching' = [watching EXCEPT ![Ev.p] = @ \cup ({k \in OnDisk : files[k] = "written"} \ cache[Ev.p])]
        /\ UNCHANGED <<files, alive, obs, pend, dstat, notify, reclaiming, wl>>
  \/ IsEvent("tok.file.delete") /\ (IF cs[Ev.p].kind = "rel" /\ cs[Ev.p].job = Ev.job THEN RelDelete(Ev.p) ELSE ReclaimDelete(Ev.p, Ev.job))
  \/ IsEvent("tok.watch.start") /\ Stutter      \* (the thread may announce itself before the handler that started it reports)
  \/ IsEvent("tok.watch.reclaim") /\ ReclaimDecide(Ev.p, Ev.job)
  \/ IsEvent("tok.watch.keep") /\ ReclaimKeep(Ev.p, Ev.job)
  \/ IsEvent("tok.evt.cached") /\ CachedEv(Ev.p, Ev.job)
  \/ IsEvent("tok.evt.error") /\ OnCreatedOrModified(Ev.p, Ev.by, Ev.job) /\ ~obs'[Ev.p]
  \/ IsEvent("tok.evt.deleted") /\ OnDeleted(Ev.p, Ev.job)      \* (the in-memory count outside the ipc lock is allowed to drift)
  \/ IsEvent("tok.dep.changed") /\ (IF dstat[Ev.job] = Ev.new THEN Stutter ELSE Recheck(Ev.p, Ev.job) /\ dstat'[Ev.job] = Ev.new)
  \/ IsEvent("h.abort") /\ Abort(Ev.job)
  \/ IsEvent("h.jobstart") /\ JobStart(Ev.job)
  \/ IsEvent("h.jobend") /\ JobEnd(Ev.job)
  \/ IsEvent("h.kill") /\ Kill(Ev.p)
  \/ IsEvent("h.note") /\ Stutter
  (* the harness has waited for everything to settle: a waiting job whose request fits must have been told *)
  \/ /\ IsEvent("h.quiescent") /\ Stutter
     /\ \A j \in Jobs : ((jobst[j] = "submitted" /\ alive[Owner[j]] /\ Req[j] <= info.total - Sum(Holders)) => dstat[j] = "OK")
     (* ... and what a finished job (or a job that never started because its scheduler died) held has come back *)
     /\ \A k \in Jobs : ((jobst[k] \in {"released", "ended"} \/ (jobst[k] = "holding" /\ ~alive[Owner[k]])) => files[k] = "absent")

TraceNext == Logged

WlOf(t) == [owner |-> [j \in Jobs |-> IF j \in DOMAIN t.owner THEN t.owner[j] ELSE "p1"],
            req |-> [j \in Jobs |-> IF j \in DOMAIN t.req THEN t.req[j] ELSE 1], total |-> t.total, totals |-> {}, resub |-> {1, 2, 3, 4}, late |-> {}]
TraceInit == /\ tid \in DOMAIN Traces /\ InitWith(WlOf(Traces[tid].wl)) /\ l = 1
TraceSpec == TraceInit /\ [][TraceNext]_tvars

ToSet(q) == {q[x] : x \in DOMAIN q}
InvList == << <<"Capacity", Capacity>>, <<"RunningHoldFile", RunningHoldFile>>, <<"RunningUnderCapacity", RunningUnderCapacity>>, <<"MutualExclusion", MutualExclusion>>, <<"ObserversSurvive", ObserversSurvive>>, <<"NoOrphanEmptyFile", NoOrphanEmptyFile>> >>
BrokenInvs == {c[1] : c \in {x \in ToSet(InvList) : ~x[2]}}
Progress ==
  /\ (TLCGet(tid) < l - 1 => TLCSet(tid, l - 1))
  /\ (BrokenInvs # {} => PrintT(<<"INV", tid, l - 1, BrokenInvs>>))
ASSUME \A t \in DOMAIN Traces : TLCSet(t, 0)
Accepted == \A t \in DOMAIN Traces : \/ TLCGet(t) = Len(Traces[t].ev)
                                     \/ PrintT(<<"REJECTED", t, TLCGet(t), Len(Traces[t].ev)>>)
=============================================================================
