---------------------------- MODULE XpmScheduler ----------------------------
(***************************************************************************)
(* One experimaestro scheduler (event loop + main thread) and the world it  *)
(* acts on (job directories, job processes, job run locks).                 *)
(*                                                                         *)
(* Grain: one action per resumed execution of a coroutine (the code between *)
(* two real suspension points of aio_submit / aio_start), one per loop      *)
(* callback (Dependency.check, the token notify closure, registration,      *)
(* experiment.wait()), one per helper-thread completion, one per step of a  *)
(* job process (TaskRunner protocol: take the run lock, run the body, leave *)
(* markers), one per call of the main thread.                               *)
(*                                                                         *)
(* The whole mutable state is the record `s`; the workload `wl` is a        *)
(* variable fixed by Init so that one TLC run covers many workloads and a   *)
(* batch of recorded traces may mix workloads.                              *)
(*                                                                         *)
(* Code references: src/experimaestro/scheduler/base.py (Scheduler,         *)
(* Job.dependencychanged, experiment.wait), scheduler/dependencies.py,      *)
(* tokens.py (ProcessCounterToken, Token.aio_notify), locking.py,           *)
(* commandline.py (aio_process / aio_run), run.py (TaskRunner).             *)
(***************************************************************************)
EXTENDS Naturals, Integers, Sequences, FiniteSets, TLC

VARIABLES wl, s

vars == <<wl, s>>

NONE == "-"
Final == {"DONE", "ERROR"}
NotStarted == {"UNSCHEDULED", "WAITING", "READY"}

(* ------------------------------------------------------------------ *)
(* Workload accessors                                                   *)
(*   wl.names   : set of job names                                      *)
(*   wl.inst    : [names -> Seq(instance ids)]  (k-th submit of a name) *)
(*   wl.deps    : [names -> SUBSET names]                               *)
(*   wl.tokens  : set of token names, wl.cap : [tokens -> Nat]          *)
(*   wl.req     : [names -> [tokens -> Nat]]   (0 = no dependency)      *)
(*   wl.codes   : [names -> Seq(0..1)]  exit code of the k-th body run  *)
(*   wl.program : Seq of [op, n] records (main thread)                  *)
(*   wl.fix     : set of repaired defects ({"F2","F3","F4"} subset)     *)
(* ------------------------------------------------------------------ *)
Names == wl.names
Tokens == wl.tokens
Insts == UNION {{wl.inst[n][k] : k \in DOMAIN wl.inst[n]} : n \in Names}
NameOf(i) == CHOOSE n \in Names : \E k \in DOMAIN wl.inst[n] : wl.inst[n][k] = i
ReqTokens(n) == {t \in Tokens : wl.req[n][t] > 0}
Fixed(f) == f \in wl.fix

(* ------------------------------------------------------------------ *)
(* Bags of pending loop callbacks                                      *)
(* ------------------------------------------------------------------ *)
BagAdd(b, e) == IF e \in DOMAIN b THEN [b EXCEPT ![e] = @ + 1]
                ELSE [x \in DOMAIN b \cup {e} |-> IF x = e THEN 1 ELSE b[x]]
BagDel(b, e) == IF b[e] > 1 THEN [b EXCEPT ![e] = @ - 1]
                ELSE [x \in DOMAIN b \ {e} |-> b[x]]
BagIn(b, e) == e \in DOMAIN b
EmptyBag == [x \in {} |-> 0]

RECURSIVE BagAddAll(_, _)
BagAddAll(b, S) == IF S = {} THEN b
                   ELSE LET e == CHOOSE x \in S : TRUE IN BagAddAll(BagAdd(b, e), S \ {e})

CbTask(i) == <<"TaskStep", i, NONE>>
CbReg(i) == <<"Register", i, NONE>>
CbCheck(i, o) == <<"DepCheck", i, o>>
CbNotify(i, o) == <<"Notify", i, o>>
CbWaiter == <<"WaiterStep", NONE, NONE>>
CbStop == <<"StopStep", NONE, NONE>>

(* ------------------------------------------------------------------ *)
(* Initial state                                                        *)
(* ------------------------------------------------------------------ *)
InitMem ==
  [ cnt |-> [n \in Names |-> 0],
    regmap |-> [n \in Names |-> NONE],
    regres |-> [i \in Insts |-> NONE],
    other |-> [i \in Insts |-> NONE],
    outof |-> [n \in Names |-> NONE],
    dorig |-> [i \in Insts |-> {}],
    jstate |-> [i \in Insts |-> "NONE"],
    unsat |-> [i \in Insts |-> 0],
    ev |-> [i \in Insts |-> FALSE],
    dstat |-> [i \in Insts |-> [o \in {} |-> "WAIT"]],
    pc |-> [i \in Insts |-> "none"],
    held |-> [i \in Insts |-> {}],
    myproc |-> [i \in Insts |-> 0],
    doneAtBegin |-> [i \in Insts |-> FALSE],
    tdeps |-> [t \in Tokens |-> {}],
    jdeps |-> [i \in Insts |-> {}],
    avail |-> [t \in Tokens |-> wl.cap[t]],
    ready |-> EmptyBag,
    threads |-> {},
    unfinished |-> 0,
    failed |-> {},
    waiter |-> "none",
    stopreq |-> FALSE,      \* experiment.stop() was called (SIGINT handler)
    exitmode |-> FALSE,     \* experiment.exitMode
    result |-> [i \in Insts |-> NONE],
    xpof |-> [i \in Insts |-> 0],     \* the experiment (s.inc) an instance was registered in
    mwait |-> <<NONE, NONE>> ]

InitWorld ==
  [ done |-> [n \in Names |-> FALSE],
    failedm |-> [n \in Names |-> FALSE],
    pidf |-> [n \in Names |-> 0],
    lockh |-> [n \in Names |-> "free"],
    proc |-> [n \in Names |-> <<>>],
    launches |-> [n \in Names |-> 0],
    bodyruns |-> [n \in Names |-> 0],
    bodyends |-> [n \in Names |-> 0],
    linked |-> [n \in Names |-> FALSE] ]

Merge(a, b) == [k \in DOMAIN a \cup DOMAIN b |-> IF k \in DOMAIN a THEN a[k] ELSE b[k]]

InitState == Merge(Merge(InitMem, InitWorld), [phase |-> "run", mpc |-> 1, inc |-> 0])

(* a new scheduler process on the same workspace: fresh memory, same world *)
FreshMem(st) == Merge(InitMem, [k \in DOMAIN st \ DOMAIN InitMem |-> st[k]])

(* ------------------------------------------------------------------ *)
(* Dependencies                                                         *)
(* ------------------------------------------------------------------ *)
Status(st, i, o) ==
  IF o \in Tokens
  THEN IF wl.req[NameOf(i)][o] <= st.avail[o] THEN "OK" ELSE "WAIT"
  ELSE IF st.jstate[o] = "DONE" THEN "OK"
       ELSE IF st.jstate[o] = "ERROR" THEN "FAIL" ELSE "WAIT"

V(x) == IF x = "OK" THEN 1 ELSE 0

(* asyncio.Event.set(): wakes the task suspended in wait() *)
SetEv(st, i) ==
  IF st.ev[i] THEN st
  ELSE LET s1 == [st EXCEPT !.ev[i] = TRUE]
       IN IF st.pc[i] = "evwait" THEN [s1 EXCEPT !.ready = BagAdd(@, CbTask(i))] ELSE s1

(* Dependency.check + Job.dependencychanged (base.py l.344-365) *)
DepCheckF(st, i, o) ==
  LET new == Status(st, i, o)
      old == st.dstat[i][o]
  IN IF new = old THEN st
     ELSE
       LET u == st.unsat[i] - (V(new) - V(old))
           s1 == [st EXCEPT !.unsat[i] = u, !.dstat[i][o] = new]
           s2 == IF new = "FAIL" /\ s1.jstate[i] \notin Final
                 THEN SetEv([s1 EXCEPT !.jstate[i] = "ERROR"], i) ELSE s1
           s3 == IF u = 0 /\ (~Fixed("F2") \/ s2.jstate[i] \in NotStarted)
                 THEN SetEv([s2 EXCEPT !.jstate[i] = "READY"], i) ELSE s2
       IN s3

RECURSIVE CheckAll(_, _, _)
CheckAll(st, i, S) ==
  IF S = {} THEN st
  ELSE LET o == CHOOSE x \in S : TRUE IN CheckAll(DepCheckF(st, i, o), i, S \ {o})

(* Token release: available += count; aio_notify queues one closure per dependent *)
ReleaseOne(st, i, t) ==
  [st EXCEPT !.avail[t] = @ + wl.req[NameOf(i)][t],
             !.ready = BagAddAll(@, {CbNotify(d, t) : d \in st.tdeps[t]})]

RECURSIVE ReleaseAll(_, _, _)
ReleaseAll(st, i, S) ==
  IF S = {} THEN [st EXCEPT !.held[i] = {}]
  ELSE LET t == CHOOSE x \in S : TRUE IN ReleaseAll(ReleaseOne(st, i, t), i, S \ {t})

(* ------------------------------------------------------------------ *)
(* The aio_submit / aio_start coroutine, block by block                 *)
(* ------------------------------------------------------------------ *)
DeadProc == {"exit0", "exit1", "killed"}    \* "killed": SIGKILL / OOM -- no marker written, the pid file stays, the lock is dropped
AliveProc(st, n) == st.pidf[n] > 0 /\ st.proc[n][st.pidf[n]] \notin DeadProc

Finish(st, i) ==
  (* l.639-650: listeners, failedJobs, done_handler in a helper thread *)
  LET s1 == IF st.jstate[i] # "DONE"
            THEN [st EXCEPT !.failed = (@ \ {x \in @ : NameOf(x) = NameOf(i)}) \cup {i}]
            ELSE st
  IN [s1 EXCEPT !.pc[i] = "donehandler", !.threads = @ \cup {<<"donehandler", i>>}]

RECURSIVE LoopHead(_, _), AfterWait(_, _)
LoopHead(st, i) ==
  (* l.621-623: while not finished: await event (suspends only when the event is clear) *)
  IF st.jstate[i] \in Final THEN Finish(st, i)
  ELSE IF ~st.ev[i] THEN [st EXCEPT !.pc[i] = "evwait"]
  ELSE AfterWait(st, i)

AfterWait(st, i) ==
  (* l.624-637: the event is cleared BEFORE the state is tested; start if READY *)
  LET s1 == [st EXCEPT !.ev[i] = FALSE]
  IN IF s1.jstate[i] = "READY"
     THEN [s1 EXCEPT !.pc[i] = "lockin", !.threads = @ \cup {<<"lockin", i>>}]
     ELSE LoopHead(s1, i)

MarkDone(st, i) == IF st.done[NameOf(i)] THEN [st EXCEPT !.jstate[i] = "DONE"] ELSE st

StepBegin(st, i) ==
  (* l.553-619 *)
  LET n == NameOf(i)
      D == st.dorig[i]
      s0 == [st EXCEPT !.ev[i] = FALSE, !.linked[n] = TRUE, !.jstate[i] = "WAITING",
                       !.doneAtBegin[i] = st.done[n]]
      s1 == IF D # {}
            THEN LET sa == [s0 EXCEPT !.unsat[i] = Cardinality(D),
                                      !.tdeps = [t \in Tokens |-> IF t \in D THEN @[t] \cup {i} ELSE @[t]],
                                      !.jdeps = [o \in Insts |-> IF o \in D THEN @[o] \cup {i} ELSE @[o]]]
                 IN CheckAll(sa, i, D)
            ELSE [s0 EXCEPT !.ev[i] = TRUE, !.jstate[i] = "READY"]
      s2 == MarkDone(s1, i)
  IN IF AliveProc(s2, n)
     THEN (* adoption: l.597-612 *)
          [s2 EXCEPT !.jstate[i] = "RUNNING", !.pc[i] = "adoptwait", !.myproc[i] = s2.pidf[n],
                     !.threads = @ \cup {<<"adoptwait", i>>}]
     ELSE LoopHead(MarkDone(s2, i), i)

StepAdopted(st, i) ==
  (* l.613-618: the exit code of an adopted process is unknown (None) *)
  LoopHead(MarkDone([st EXCEPT !.jstate[i] = "ERROR"], i), i)

(* aio_start after the job lock was obtained (l.686-731).  `order` is the
   iteration order of the dependency set. *)
RECURSIVE Acquire(_, _, _)
Acquire(st, i, order) ==
  IF order = <<>> THEN [st |-> st, ok |-> TRUE]
  ELSE LET t == Head(order)
           c == wl.req[NameOf(i)][t]
       IN IF st.avail[t] < c
          THEN [st |-> DepCheckF(st, i, t), ok |-> FALSE]
          ELSE Acquire([st EXCEPT !.avail[t] = @ - c, !.held[i] = @ \cup {t}], i, Tail(order))

Perms(S) == {f \in [1..Cardinality(S) -> S] : \A a, b \in 1..Cardinality(S) : a # b => f[a] # f[b]}

StepLocked(st, i, order) ==
  LET n == NameOf(i)
      r == Acquire(st, i, order)
  IN IF ~r.ok
     THEN [r.st EXCEPT !.pc[i] = "lockout_abort", !.threads = @ \cup {<<"lockout_abort", i>>}]
     ELSE IF wl.codes[n][1] = 8
     THEN (* the launcher cannot start the process: aio_run raises, aio_start answers ERROR (l.751-755) *)
          [r.st EXCEPT !.pc[i] = "lockout_fail", !.threads = @ \cup {<<"lockout_fail", i>>}]
     ELSE (* mkdir, prepare, spawn, pid file, RUNNING *)
          [r.st EXCEPT !.proc[n] = Append(@, "spawned"),
                       !.pidf[n] = Len(st.proc[n]) + 1,
                       !.myproc[i] = Len(st.proc[n]) + 1,
                       !.launches[n] = @ + 1,
                       !.jstate[i] = "RUNNING",
                       !.pc[i] = "lockout", !.threads = @ \cup {<<"lockout", i>>}]

StepLockout(st, i) ==
  [st EXCEPT !.pc[i] = "procwait", !.threads = @ \cup {<<"procwait", i>>}]

StepStartFailed(st, i) ==
  (* leaving `with Locks()`: the tokens come back; the job is in error *)
  LET s1 == ReleaseAll(st, i, st.held[i])
      s2 == [s1 EXCEPT !.jstate[i] = "ERROR"]
  IN LoopHead(s2, i)

StepAborted(st, i) ==
  (* leaving `with Locks()`, then `job.state = WAITING` (l.637) *)
  LET s1 == ReleaseAll(st, i, st.held[i])
      s2 == IF Fixed("F4") /\ s1.unsat[i] = 0
            THEN SetEv([s1 EXCEPT !.jstate[i] = "READY"], i)
            ELSE [s1 EXCEPT !.jstate[i] = "WAITING"]
  IN LoopHead(s2, i)

StepExited(st, i) ==
  (* l.740-764 + l.637 *)
  LET n == NameOf(i)
      code == IF st.proc[n][st.myproc[i]] = "exit0" THEN 0 ELSE 1
      s1 == ReleaseAll(st, i, st.held[i])
      s2 == [s1 EXCEPT !.jstate[i] = IF code = 0 THEN "DONE" ELSE "ERROR"]
  IN LoopHead(s2, i)

StepHandled(st, i) ==
  (* l.652-668 *)
  LET s1 == [st EXCEPT !.unfinished = @ - 1]
      s2 == IF s1.waiter = "waiting"
            THEN [s1 EXCEPT !.waiter = "woken", !.ready = BagAdd(@, CbWaiter)] ELSE s1
  IN [s2 EXCEPT !.ready = BagAddAll(@, {CbCheck(d, i) : d \in st.jdeps[i]}),
                !.result[i] = st.jstate[i],
                !.pc[i] = "finished"]

(* ------------------------------------------------------------------ *)
(* Actions                                                              *)
(* ------------------------------------------------------------------ *)
Running == s.phase = "run"
Op == IF s.mpc <= Len(wl.program) THEN wl.program[s.mpc] ELSE [op |-> "end", n |-> NONE]
MainFree == s.mwait = <<NONE, NONE>>

(* main thread: Task.submit() up to the registration request *)
UserSubmit(n) ==
  /\ Running /\ MainFree /\ Op.op = "submit" /\ Op.n = n
  /\ s.cnt[n] < Len(wl.inst[n])
  /\ \A u \in wl.deps[n] : s.outof[u] # NONE
  /\ LET i == wl.inst[n][s.cnt[n] + 1]
     IN s' = [s EXCEPT !.cnt[n] = @ + 1,
                       !.dorig[i] = {s.outof[u] : u \in wl.deps[n]} \cup ReqTokens(n),
                       !.dstat[i] = [o \in {s.outof[u] : u \in wl.deps[n]} \cup ReqTokens(n) |-> "WAIT"],
                       !.jstate[i] = "UNSCHEDULED",
                       !.pc[i] = "reg",
                       !.ready = BagAdd(@, CbReg(i)),
                       !.mwait = <<"reg", i>>]
  /\ UNCHANGED wl

(* aio_registerJob (l.524-547) *)
Register(i) ==
  /\ Running /\ BagIn(s.ready, CbReg(i))
  /\ LET n == NameOf(i)
         o == s.regmap[n]
         s1 == [s EXCEPT !.ready = BagDel(@, CbReg(i)), !.pc[i] = "regdone", !.xpof[i] = s.inc]
     IN s' = IF o # NONE
             THEN IF s.jstate[o] = "ERROR"
                  THEN (* re-submission of a failed job *)
                       IF Fixed("F3")
                       THEN [s1 EXCEPT !.regres[i] = "new", !.regmap[n] = i, !.unfinished = @ + 1]
                       ELSE [s1 EXCEPT !.regres[i] = "new"]
                  ELSE [s1 EXCEPT !.regres[i] = "dup", !.other[i] = o]
             ELSE [s1 EXCEPT !.regres[i] = "new", !.regmap[n] = i, !.unfinished = @ + 1]
  /\ UNCHANGED wl

(* main thread: run_coroutine_threadsafe(aio_submit(job)) *)
UserStart(i) ==
  /\ Running /\ s.mwait = <<"reg", i>> /\ s.pc[i] = "regdone" /\ s.regres[i] = "new"
  /\ s' = [s EXCEPT !.pc[i] = "start", !.ready = BagAdd(@, CbTask(i)), !.mwait = <<"ret", i>>]
  /\ UNCHANGED wl

(* main thread: submit() returns the output object (its own or the first submission's) *)
SubmitReturn(i) ==
  /\ Running
  /\ \/ s.mwait = <<"ret", i>>
     \/ s.mwait = <<"reg", i>> /\ s.pc[i] = "regdone" /\ s.regres[i] = "dup"
  /\ s' = [s EXCEPT !.outof[NameOf(i)] = IF s.regres[i] = "dup" THEN s.other[i] ELSE i,
                    !.mwait = <<NONE, NONE>>, !.mpc = @ + 1]
  /\ UNCHANGED wl

TaskStep(i) ==
  /\ Running /\ BagIn(s.ready, CbTask(i))
  /\ LET s0 == [s EXCEPT !.ready = BagDel(@, CbTask(i))]
     IN CASE s.pc[i] = "start" -> s' = StepBegin(s0, i)
          [] s.pc[i] = "adoptwait" -> s' = StepAdopted(s0, i)
          [] s.pc[i] = "evwait" -> s' = AfterWait(s0, i)
          [] s.pc[i] = "lockin" ->
               \E order \in Perms(ReqTokens(NameOf(i))) : s' = StepLocked(s0, i, order)
          [] s.pc[i] = "lockout" -> s' = StepLockout(s0, i)
          [] s.pc[i] = "lockout_abort" -> s' = StepAborted(s0, i)
          [] s.pc[i] = "lockout_fail" -> s' = StepStartFailed(s0, i)
          [] s.pc[i] = "procwait" -> s' = StepExited(s0, i)
          [] s.pc[i] = "donehandler" -> s' = StepHandled(s0, i)
          [] OTHER -> FALSE
  /\ UNCHANGED wl

DepCheck(i, o) ==
  /\ Running /\ BagIn(s.ready, CbCheck(i, o))
  /\ s' = DepCheckF([s EXCEPT !.ready = BagDel(@, CbCheck(i, o))], i, o)
  /\ UNCHANGED wl

Notify(i, t) ==
  /\ Running /\ BagIn(s.ready, CbNotify(i, t))
  /\ LET s0 == [s EXCEPT !.ready = BagDel(@, CbNotify(i, t))]
     IN s' = IF s0.avail[t] > 0 THEN DepCheckF(s0, i, t) ELSE s0
  /\ UNCHANGED wl

(* completion of a helper thread (asyncThreadcheck) *)
ThreadEnabled(st, kind, i) ==
  LET n == NameOf(i)
  IN CASE kind = "lockin" -> st.lockh[n] = "free"
       [] kind \in {"procwait", "adoptwait"} -> st.proc[n][st.myproc[i]] \in DeadProc
       [] OTHER -> TRUE

ThreadDone(kind, i) ==
  /\ Running /\ <<kind, i>> \in s.threads /\ ThreadEnabled(s, kind, i)
  /\ LET n == NameOf(i)
         s1 == [s EXCEPT !.threads = @ \ {<<kind, i>>}, !.ready = BagAdd(@, CbTask(i))]
     IN s' = CASE kind = "lockin" -> [s1 EXCEPT !.lockh[n] = "sched"]
               [] kind \in {"lockout", "lockout_abort", "lockout_fail"} -> [s1 EXCEPT !.lockh[n] = "free"]
               [] OTHER -> s1
  /\ UNCHANGED wl

(* job process, TaskRunner protocol (run.py l.101-160) *)
ProcLock(n, k) ==
  /\ k \in DOMAIN s.proc[n] /\ s.proc[n][k] = "spawned" /\ s.lockh[n] = "free"
  /\ s' = IF s.done[n]
          THEN [s EXCEPT !.lockh[n] = "proc", !.proc[n][k] = "skip"]
          ELSE [s EXCEPT !.lockh[n] = "proc", !.proc[n][k] = "body", !.failedm[n] = FALSE,
                         !.bodyruns[n] = @ + 1]
  /\ UNCHANGED wl

BodyCode(n) == LET c == wl.codes[n]
                   r == s.bodyruns[n]
               IN c[IF r <= Len(c) THEN r ELSE Len(c)]

ProcExit(n, k) ==
  /\ k \in DOMAIN s.proc[n] /\ s.proc[n][k] \in {"body", "skip"}
  /\ LET code == IF s.proc[n][k] = "skip" THEN 0 ELSE BodyCode(n)
         s1 == [s EXCEPT !.lockh[n] = "free", !.pidf[n] = 0,
                         !.proc[n][k] = IF code = 0 THEN "exit0" ELSE "exit1"]
     IN s' = IF s.proc[n][k] = "skip" THEN s1
             ELSE IF code = 0 THEN [s1 EXCEPT !.done[n] = TRUE, !.bodyends[n] = @ + 1]
             ELSE IF code = 9      \* the workload says this run of the body is killed (SIGKILL, out of memory): nothing is cleaned up
             THEN [s EXCEPT !.lockh[n] = "free", !.proc[n][k] = "killed"]
             ELSE [s1 EXCEPT !.failedm[n] = TRUE]
  /\ UNCHANGED wl

(* experiment.wait() (l.915-952), called from __exit__ *)
WaitCall ==
  /\ Running /\ MainFree /\ Op.op = "wait"
  /\ s' = [s EXCEPT !.waiter = "start", !.ready = BagAdd(@, CbWaiter), !.mwait = <<"xpwait", NONE>>]
  /\ UNCHANGED wl

WaiterStep ==
  /\ Running /\ BagIn(s.ready, CbWaiter) /\ s.waiter \in {"start", "woken"}
  /\ LET s0 == [s EXCEPT !.ready = BagDel(@, CbWaiter)]
     IN s' = IF s.unfinished = 0 \/ s.exitmode
             THEN [s0 EXCEPT !.waiter = IF s.failed # {} THEN "failed" ELSE "ok"]
             ELSE [s0 EXCEPT !.waiter = "waiting"]
  /\ UNCHANGED wl

WaitReturn ==
  /\ Running /\ s.mwait = <<"xpwait", NONE>> /\ s.waiter \in {"ok", "failed"}
  /\ s.unfinished = 0            \* (otherwise: WaitReturnStopped below)
  /\ s' = [s EXCEPT !.phase = "closed", !.mwait = <<NONE, NONE>>, !.mpc = @ + 1]
  /\ UNCHANGED wl

(* job.wait() *)
JobWaitCall(n) ==
  /\ Running /\ MainFree /\ Op.op = "waitjob" /\ Op.n = n /\ s.regmap[n] # NONE
  /\ s' = [s EXCEPT !.mwait = <<"job", s.regmap[n]>>]
  /\ UNCHANGED wl

JobWaitReturn(i) ==
  /\ Running /\ s.mwait = <<"job", i>> /\ s.result[i] # NONE
  /\ s' = [s EXCEPT !.mwait = <<NONE, NONE>>, !.mpc = @ + 1]
  /\ UNCHANGED wl

(* SIGKILL of the scheduler process: memory is lost, the OS drops its file locks; the main program of the dead
   process is over: the next thing that can happen to the workspace is the next `restart` *)
NextRestart(k) == IF \E x \in k..Len(wl.program) : wl.program[x].op = "restart"
                  THEN CHOOSE x \in k..Len(wl.program) : wl.program[x].op = "restart" /\ \A y \in k..(x - 1) : wl.program[y].op # "restart"
                  ELSE Len(wl.program) + 1
Dead(st) == [FreshMem(st) EXCEPT !.phase = "dead",
                                 !.lockh = [n \in Names |-> IF st.lockh[n] = "sched" THEN "free" ELSE st.lockh[n]],
                                 !.mpc = NextRestart(st.mpc)]
Die ==
  /\ Running
  /\ s' = Dead(s)
  /\ UNCHANGED wl

(* ... or in the middle of the launch block: the job process exists, its pid file was never written *)
DieAfterSpawn(i) ==
  /\ Running /\ BagIn(s.ready, CbTask(i)) /\ s.pc[i] = "lockin"
  /\ \E order \in Perms(ReqTokens(NameOf(i))) :
       LET n == NameOf(i)
           r == Acquire([s EXCEPT !.ready = BagDel(@, CbTask(i))], i, order)
       IN /\ r.ok
          /\ s' = Dead([r.st EXCEPT !.proc[n] = Append(@, "spawned"), !.launches[n] = @ + 1])
  /\ UNCHANGED wl

KillOp == Running /\ MainFree /\ Op.op = "kill" /\ (Die \/ \E i \in Insts : DieAfterSpawn(i))

(* ------------------------------------------------------------------ *)
(* experiment.stop(): the SIGINT handler of the main thread (Ctrl-C while the program waits)                *)
(* ------------------------------------------------------------------ *)
(* the signal arrives while the main program is at a `wait` that the workload marks as interrupted:
   stop() posts doStop() to the loop *)
Sigint ==
  /\ Running /\ Op.op = "wait" /\ Op.n = "sigint" /\ ~s.stopreq
  /\ s' = [s EXCEPT !.stopreq = TRUE, !.ready = BagAdd(@, CbStop)]
  /\ UNCHANGED wl

(* doStop(): exitMode := True, exitCondition.notify_all() *)
StopStep ==
  /\ Running /\ BagIn(s.ready, CbStop)
  /\ LET s0 == [s EXCEPT !.ready = BagDel(@, CbStop), !.exitmode = TRUE]
     IN s' = IF s.waiter = "waiting" THEN [s0 EXCEPT !.waiter = "woken", !.ready = BagAdd(@, CbWaiter)] ELSE s0
  /\ UNCHANGED wl

(* wait() came back although jobs are unfinished: __exit__ stops the loop and the program ends -- for the
   workspace this is the death of the scheduler process (jobs keep running, nothing is unwound) *)
WaitReturnStopped ==
  /\ Running /\ s.mwait = <<"xpwait", NONE>> /\ s.waiter \in {"ok", "failed"}
  /\ s.unfinished > 0
  /\ s' = Dead(s)
  /\ UNCHANGED wl

(* a new experiment on the same workspace *)
Restart ==
  /\ s.phase \in {"dead", "closed"} /\ Op.op = "restart"
  /\ s' = [FreshMem(s) EXCEPT !.phase = "run", !.mpc = s.mpc + 1, !.inc = @ + 1]
  /\ UNCHANGED wl

(* a second experiment in the same program (same process): the scheduler, its registry and its counters are new, the
   job objects of the first experiment -- and what the program holds of them: outputs, final states -- are still there,
   and can be used as dependencies without being submitted again *)
NewXp ==
  /\ s.phase = "closed" /\ Op.op = "newxp"
  /\ s' = [s EXCEPT !.phase = "run", !.mpc = @ + 1, !.inc = @ + 1,
                    !.regmap = InitMem.regmap, !.ready = EmptyBag, !.threads = {}, !.unfinished = 0, !.failed = {},
                    !.waiter = "none", !.stopreq = FALSE, !.exitmode = FALSE, !.mwait = <<NONE, NONE>>,
                    !.avail = InitMem.avail, !.tdeps = InitMem.tdeps]
  /\ UNCHANGED wl

(* between two runs the user removes the success marker of a job *)
RmDone(n) ==
  /\ s.phase \in {"dead", "closed"} /\ Op.op = "rmdone" /\ Op.n = n /\ s.done[n]
  /\ s' = [s EXCEPT !.done[n] = FALSE, !.bodyends[n] = 0, !.mpc = @ + 1]
  /\ UNCHANGED wl

(* ------------------------------------------------------------------ *)
(* Terminal states                                                      *)
(* ------------------------------------------------------------------ *)
ProgramEnded == s.mpc > Len(wl.program)
NoProcessLeft == \A n \in Names : \A k \in DOMAIN s.proc[n] : s.proc[n][k] \in DeadProc
NewInsts == {i \in Insts : s.regres[i] = "new" /\ s.pc[i] \notin {"reg", "regdone"}}

GoodEnd ==
  /\ ProgramEnded /\ NoProcessLeft
  /\ s.phase \in {"closed", "dead"}
  /\ s.phase = "closed" =>
       /\ \A i \in NewInsts : s.pc[i] = "finished" /\ s.result[i] = s.jstate[i] /\ s.jstate[i] \in Final
       /\ s.unfinished = 0
       /\ \A t \in Tokens : s.avail[t] = wl.cap[t]
       /\ s.threads = {}
       /\ \A i \in Insts : s.held[i] = {}

Terminated == GoodEnd /\ UNCHANGED vars

(* one parameterless name per action, so that TLC's coverage table reports each of them *)
AUserSubmit == \E n \in Names : UserSubmit(n)
AJobWaitCall == \E n \in Names : JobWaitCall(n)
ARmDone == \E n \in Names : RmDone(n)
ARegister == \E i \in Insts : Register(i)
AUserStart == \E i \in Insts : UserStart(i)
ASubmitReturn == \E i \in Insts : SubmitReturn(i)
ATaskStep == \E i \in Insts : TaskStep(i)
AJobWaitReturn == \E i \in Insts : JobWaitReturn(i)
ADepCheck == \E i \in Insts : \E o \in Insts \cup Tokens : DepCheck(i, o)
ANotify == \E i \in Insts : \E o \in Insts \cup Tokens : Notify(i, o)
AThreadDone == \E i \in Insts : \E kind \in {"lockin", "lockout", "lockout_abort", "lockout_fail", "procwait", "adoptwait", "donehandler"} :
                  ThreadDone(kind, i)
AProcLock == \E n \in Names : \E k \in 1..3 : ProcLock(n, k)
AProcExit == \E n \in Names : \E k \in 1..3 : ProcExit(n, k)

Next ==
  \/ AUserSubmit \/ AJobWaitCall \/ ARmDone
  \/ ARegister \/ AUserStart \/ ASubmitReturn \/ ATaskStep \/ AJobWaitReturn
  \/ ADepCheck \/ ANotify
  \/ AThreadDone
  \/ AProcLock \/ AProcExit
  \/ WaitCall \/ WaiterStep \/ WaitReturn
  \/ Sigint \/ StopStep \/ WaitReturnStopped
  \/ KillOp \/ Restart \/ NewXp
  \/ Terminated

Init == wl \in {} /\ s = InitState   \* overridden by the MC / trace modules

Spec == Init /\ [][Next]_vars

(* ------------------------------------------------------------------ *)
(* Properties                                                           *)
(* ------------------------------------------------------------------ *)
Sum(f, S) == LET RECURSIVE Acc(_)
                 Acc(T) == IF T = {} THEN 0 ELSE LET x == CHOOSE y \in T : TRUE IN f[x] + Acc(T \ {x})
             IN Acc(S)

(* C04: no launch before every dependency has succeeded *)
NoEarlyLaunchA == \A n \in Names : s'.launches[n] > s.launches[n] => \A u \in wl.deps[n] : s.done[u]
NoEarlyLaunch == [][NoEarlyLaunchA]_vars

(* C05 *)
OneBodyAtATime == \A n \in Names : Cardinality({k \in DOMAIN s.proc[n] : s.proc[n][k] = "body"}) <= 1
NoBodyAfterDoneA == \A n \in Names : s'.bodyruns[n] > s.bodyruns[n] => ~s.done[n]
NoBodyAfterDone == [][NoBodyAfterDoneA]_vars
NoLaunchWhenDoneAtSubmitA ==
  \A i \in Insts : (s'.pc[i] = "lockout" /\ s.pc[i] = "lockin") => ~s.doneAtBegin[i]
NoLaunchWhenDoneAtSubmit == [][NoLaunchWhenDoneAtSubmitA]_vars
SuccessfulBodyAtMostOnce == \A n \in Names : s.bodyends[n] <= 1
RegistryDedup ==
  \A i, j \in Insts :
     (i # j /\ NameOf(i) = NameOf(j) /\ s.regres[i] = "new" /\ s.regres[j] = "new"
        /\ s.xpof[i] = s.xpof[j]          \* (in the same experiment)
        /\ s.pc[i] \notin {"none", "reg", "regdone"} /\ s.pc[j] \notin {"none", "reg", "regdone"})
     => (s.jstate[i] = "ERROR" \/ s.jstate[j] = "ERROR")

(* C06 *)
FinalAbsorbingA ==
  (s.phase = "run" /\ s'.phase # "dead" /\ s'.inc = s.inc) =>
        \A i \in Insts : s.jstate[i] \in Final => s'.jstate[i] = s.jstate[i]
FinalAbsorbing == [][FinalAbsorbingA]_vars
ResultIsFinal == \A i \in Insts : s.result[i] # NONE => (s.result[i] \in Final /\ s.result[i] = s.jstate[i])
TruthfulFinalA ==
  \A i \in Insts : (s'.pc[i] = "donehandler" /\ s.pc[i] # "donehandler") =>
        (s'.jstate[i] = "DONE" <=> s'.done[NameOf(i)])
TruthfulFinal == [][TruthfulFinalA]_vars
WaitOnlyWhenAllFinal ==
  (s.waiter \in {"ok", "failed"} /\ ~s.exitmode) => \A i \in NewInsts : s.jstate[i] \in Final /\ s.pc[i] = "finished"
CounterNonNegative == s.unfinished >= 0
(* wait() returns early only on request *)
StopOnlyOnRequest == s.exitmode => s.stopreq
EarlyReturnOnlyAfterStopA == (s.mwait = <<"xpwait", NONE>> /\ s'.mwait # s.mwait /\ s.unfinished > 0) => s.exitmode
EarlyReturnOnlyAfterStop == [][EarlyReturnOnlyAfterStopA]_vars

(* C07 *)
ExitReportsFailureIffFailed ==
  (s.waiter \in {"ok", "failed"} /\ ~s.exitmode) =>
     (s.waiter = "failed" <=> \E i \in NewInsts : s.xpof[i] = s.inc /\ s.jstate[i] = "ERROR")
FailedDependentsCancelled ==
  (s.phase = "closed") =>
     \A i \in NewInsts :
        (\E o \in s.dorig[i] \cap Insts : s.jstate[o] = "ERROR") /\ ~s.doneAtBegin[i]
           => (s.jstate[i] = "ERROR" /\ s.myproc[i] = 0)
IndependentJobsRun ==
  (s.phase = "closed") =>
     \A i \in NewInsts :
        (\A o \in s.dorig[i] \cap Insts : s.jstate[o] = "DONE") => (s.myproc[i] > 0 \/ s.doneAtBegin[i] \/ wl.codes[NameOf(i)][1] = 8)

(* C08 *)
HeldSum(t) == Sum([i \in Insts |-> IF t \in s.held[i] THEN wl.req[NameOf(i)][t] ELSE 0], Insts)
Capacity == \A t \in Tokens : HeldSum(t) <= wl.cap[t] /\ s.avail[t] = wl.cap[t] - HeldSum(t)
RunningWeight(t) ==
  Sum([i \in Insts |-> IF s.myproc[i] > 0 /\ s.pc[i] \in {"lockout", "procwait"}
                          /\ s.proc[NameOf(i)][s.myproc[i]] \notin DeadProc
                       THEN wl.req[NameOf(i)][t] ELSE 0], Insts)
RunningUnderCapacity == s.phase = "run" => \A t \in Tokens : RunningWeight(t) <= wl.cap[t]

(* C09 : part of GoodEnd (tokens full at quiescence); deadlock freedom = no hang *)
IdleTokenIsFull ==
  (s.phase \in {"run", "closed"}
      /\ (\A i \in Insts : s.pc[i] \in {"none", "reg", "regdone", "start", "evwait", "finished"})
      /\ \A j \in Insts : s.held[j] = {})
    => \A t \in Tokens : s.avail[t] = wl.cap[t]

TypeOK == s.phase \in {"run", "closed", "dead"}
=============================================================================
