------------------------------ MODULE XpmTokenFS ------------------------------
(***************************************************************************)
(* The file-based counter token shared by several scheduler processes        *)
(* (src/experimaestro/tokens.py, CounterToken / TokenFile):                   *)
(*   <dir>/token.lock   inter-process mutex (ipc)                            *)
(*   <dir>/<job>.token  "count\nuri\n", written in two steps (open, write)   *)
(* Each process keeps an in-memory view (available, cache), a file-system     *)
(* observer thread (on_created / on_modified / on_deleted run WITHOUT the    *)
(* ipc lock) and reclaim threads (TokenFile.watch: wait for the job that     *)
(* holds a token file to end, then delete the file).                         *)
(*                                                                         *)
(* Grain: one action per statement that another process can observe:         *)
(* acquire = Lock, Recount, (Fail | CreateOpen, CreateWrite, Ok);            *)
(* release = Lock, Recount, Delete, Ok; observer callbacks; reclaim.         *)
(***************************************************************************)
EXTENDS Naturals, Integers, Sequences, FiniteSets, TLC

CONSTANTS Procs,     \* scheduler processes
          Jobs,      \* jobs (= token file names)
          StrictEvents, \* TRUE: a file-system event / a notification is handled only if one is pending (model checking);
                        \* FALSE: they may be handled at any time (trace validation: the log says when)
          FixF5,     \* TRUE: an unparsable (half written) token file does not kill the observer / the recount
          FixF23,    \* TRUE: a reclaim thread removes the token file while it holds the job's run lock (nobody is starting the
                     \*       job again, the job is not running); FALSE: it removes whatever file has that name when it gets to it
          FixF26,    \* TRUE: removing a token file that somebody else has just removed is not an error
          FixF28,    \* TRUE: a process ignores the deletion events that bear the name of a token it holds (a late event about the file
                     \*       of the same name removed before the token was taken again: same job submitted again)
          FixF27,    \* TRUE: a process that starts counts the directory again once it watches it (what was removed between the
                     \*       first count and the watching -- by the reclaim threads the first count started -- went unobserved)
          AddFirst   \* TRUE: a dependency is registered with the token before its first check (what aio_submit does);
                     \* FALSE: the other order, in which a release that falls between the two is lost

VARIABLE wl          \* the workload, fixed by Init: [owner: job -> process that submits it, req: job -> amount, total,
                     \*   totals: the totals with which a process may declare the token again,
                     \*   resub: the amounts with which a job that has released the token may be submitted again,
                     \*   late: the processes that start later (CounterToken.__init__ in its two steps: StartCount, StartWatch)]
Owner == wl.owner
Req == wl.req
Total == wl.total

VARIABLES files,     \* job -> "absent" | "empty" | "written"
          ipc,       \* "free" or the process inside a critical section
          cs,        \* process -> [kind, job, step]   ("none" when outside)
          alive, obs,            \* process alive / its observer thread alive
          avail, cache,          \* in-memory view of each process
          watching,  \* process -> jobs for which a reclaim thread exists
          pend,      \* process -> set of <<kind, job>> file-system events not yet handled
          jobst,     \* job -> "idle" | "registered" / "checked" (between the two steps of a submission) | "submitted" | "holding" | "running" | "ended" | "released"
          dstat,     \* job -> "WAIT" | "OK"  (what its scheduler believes)
          reclaiming, \* process -> jobs whose reclaim thread has decided to delete the token file
          notify,    \* process -> jobs whose dependency is about to be re-checked (aio_notify closures)
          info       \* token.info: [total: what the file says, ptotal: process -> the total it has in memory,
                     \*              pending: process -> a modification of the file not yet handled, max: largest total so far,
                     \*              started: process -> "no" | "counted" (first count done, directory not watched yet) | "yes"]

vars == <<files, ipc, cs, alive, obs, avail, cache, watching, pend, jobst, dstat, notify, reclaiming, wl, info>>

None == [kind |-> "none", job |-> "-", step |-> "-"]
Present(j) == files[j] # "absent"
Sum(S) == LET RECURSIVE Acc(_)
              Acc(T) == IF T = {} THEN 0 ELSE LET x == CHOOSE y \in T : TRUE IN Req[x] + Acc(T \ {x})
          IN Acc(S)
OnDisk == {j \in Jobs : Present(j)}
Readable == \A j \in Jobs : files[j] # "empty"     \* every token file parses

InitWith(w) ==
  /\ wl = w
  /\ files = [j \in Jobs |-> "absent"] /\ ipc = "free"
  /\ cs = [p \in Procs |-> None] /\ alive = [p \in Procs |-> p \notin w.late] /\ obs = [p \in Procs |-> p \notin w.late]
  /\ avail = [p \in Procs |-> Total] /\ cache = [p \in Procs |-> {}] /\ watching = [p \in Procs |-> {}]
  /\ pend = [p \in Procs |-> {}]
  /\ jobst = [j \in Jobs |-> "idle"] /\ dstat = [j \in Jobs |-> "WAIT"]
  /\ notify = [p \in Procs |-> {}] /\ reclaiming = [p \in Procs |-> {}]
  /\ info = [total |-> w.total, ptotal |-> [p \in Procs |-> w.total], pending |-> [p \in Procs |-> FALSE], max |-> w.total, resub |-> 0,
             started |-> [p \in Procs |-> IF p \in w.late THEN "no" ELSE "yes"]]

(* every live observer is told about a change of the directory (including the process that made it) *)
Tell(kinds, j) == [p \in Procs |-> IF alive[p] /\ obs[p] THEN pend[p] \cup {<<k, j>> : k \in kinds} ELSE pend[p]]

(* the tokens a process holds, from the end of acquire() to the beginning of release() (CounterToken.own) *)
Own(p) == {j \in Jobs : Owner[j] = p /\ jobst[j] \in {"holding", "running", "ended", "aborting"}}

Status(p, j) == IF Req[j] <= avail[p] THEN "OK" ELSE "WAIT"

(* ---------------- scheduler side ---------------- *)
Submit(j) ==
  /\ alive[Owner[j]] /\ info.started[Owner[j]] = "yes" /\ jobst[j] = "idle"
  /\ jobst' = [jobst EXCEPT ![j] = "submitted"] /\ dstat' = [dstat EXCEPT ![j] = Status(Owner[j], j)]
  /\ UNCHANGED <<files, ipc, cs, alive, obs, avail, cache, watching, pend, notify, reclaiming, wl, info>>

(* the same in the two steps of aio_submit (scheduler/base.py l.589-593): the dependency is added to the token's
   dependents -- from then on a notification re-checks it -- and checked a first time *)
Waiting == {"submitted", "registered"}          \* registered with the token, not holding
SubmitAdd(j) ==
  /\ alive[Owner[j]] /\ info.started[Owner[j]] = "yes" /\ jobst[j] = (IF AddFirst THEN "idle" ELSE "checked")
  /\ jobst' = [jobst EXCEPT ![j] = IF AddFirst THEN "registered" ELSE "submitted"]
  /\ UNCHANGED <<files, ipc, cs, alive, obs, avail, cache, watching, pend, dstat, notify, reclaiming, wl, info>>
SubmitCheck(j) ==
  /\ alive[Owner[j]] /\ info.started[Owner[j]] = "yes" /\ jobst[j] = (IF AddFirst THEN "registered" ELSE "idle")
  /\ jobst' = [jobst EXCEPT ![j] = IF AddFirst THEN "submitted" ELSE "checked"] /\ dstat' = [dstat EXCEPT ![j] = Status(Owner[j], j)]
  /\ UNCHANGED <<files, ipc, cs, alive, obs, avail, cache, watching, pend, notify, reclaiming, wl, info>>

(* a job that has given its token back is submitted again (same name, hence same token file), asking for another amount *)
Resubmit(j, c) ==
  /\ jobst[j] = "released" /\ alive[Owner[j]] /\ files[j] = "absent" /\ info.resub < 1
  /\ jobst' = [jobst EXCEPT ![j] = "idle"] /\ dstat' = [dstat EXCEPT ![j] = "WAIT"]
  /\ wl' = [wl EXCEPT !.req[j] = c]
  /\ info' = [info EXCEPT !.resub = @ + 1]
  /\ UNCHANGED <<files, ipc, cs, alive, obs, avail, cache, watching, pend, notify, reclaiming>>

Lock(p, kind, j) ==
  /\ alive[p] /\ cs[p] = None /\ ipc = "free" /\ Owner[j] = p
  /\ (kind = "acq" => jobst[j] = "submitted") /\ (kind = "rel" => jobst[j] \in {"aborting", "ended"})
  /\ ipc' = p /\ cs' = [cs EXCEPT ![p] = [kind |-> kind, job |-> j, step |-> "locked"]]
  /\ UNCHANGED <<files, alive, obs, avail, cache, watching, pend, jobst, dstat, notify, reclaiming, wl, info>>

(* _update(): recount from the directory, cache every file, start a reclaim thread for files first seen *)
Recount(p) ==
  /\ alive[p] /\ cs[p].step = "locked" /\ ipc = p
  /\ IF Readable \/ FixF5
     THEN /\ avail' = [avail EXCEPT ![p] = info.total - Sum({j \in OnDisk : files[j] = "written"})]     \* (token.info is read again)
          /\ info' = [info EXCEPT !.ptotal[p] = info.total]
          /\ cache' = [cache EXCEPT ![p] = {j \in OnDisk : files[j] = "written"}]
          /\ watching' = [watching EXCEPT ![p] = @ \cup ({j \in OnDisk : files[j] = "written"} \ cache[p])]
          /\ files' = [j \in Jobs |-> IF files[j] = "empty" THEN "absent" ELSE files[j]]   \* (repaired) a dead writer's file is removed
          /\ cs' = [cs EXCEPT ![p].step = "counted"]
          /\ UNCHANGED ipc
     ELSE (* ValueError out of the critical section: the token cannot be used any more *)
          /\ cs' = [cs EXCEPT ![p] = None] /\ ipc' = "free"
          /\ UNCHANGED <<avail, cache, watching, files, info>>
  /\ UNCHANGED <<alive, obs, pend, jobst, dstat, notify, reclaiming, wl>>

AcqFail(p) ==
  /\ alive[p] /\ cs[p].kind = "acq" /\ cs[p].step = "counted" /\ avail[p] < Req[cs[p].job]
  /\ cs' = [cs EXCEPT ![p] = None] /\ ipc' = "free"
  /\ dstat' = [dstat EXCEPT ![cs[p].job] = Status(p, cs[p].job)]       \* dependency.check() after the LockError
  /\ UNCHANGED <<files, alive, obs, avail, cache, watching, pend, jobst, notify, reclaiming, wl, info>>

CreateOpen(p) ==
  /\ alive[p] /\ cs[p].kind = "acq" /\ cs[p].step = "counted" /\ avail[p] >= Req[cs[p].job] /\ ipc = p
  /\ files' = [files EXCEPT ![cs[p].job] = "empty"] /\ pend' = Tell({"created"}, cs[p].job)
  /\ cs' = [cs EXCEPT ![p].step = "opened"]
  /\ UNCHANGED <<ipc, alive, obs, avail, cache, watching, jobst, dstat, notify, reclaiming, wl, info>>

CreateWrite(p) ==
  /\ alive[p] /\ cs[p].step = "opened" /\ ipc = p
  /\ files' = [files EXCEPT ![cs[p].job] = "written"] /\ pend' = Tell({"modified"}, cs[p].job)
  /\ cs' = [cs EXCEPT ![p].step = "written"]
  /\ UNCHANGED <<ipc, alive, obs, avail, cache, watching, jobst, dstat, notify, reclaiming, wl, info>>

AcqOk(p) ==
  /\ alive[p] /\ cs[p].step = "written"
  /\ avail' = [avail EXCEPT ![p] = @ - Req[cs[p].job]] /\ cache' = [cache EXCEPT ![p] = @ \cup {cs[p].job}]
  /\ jobst' = [jobst EXCEPT ![cs[p].job] = "holding"]
  /\ cs' = [cs EXCEPT ![p] = None] /\ ipc' = "free"
  /\ UNCHANGED <<files, alive, obs, watching, pend, dstat, notify, reclaiming, wl, info>>

RelDelete(p) ==
  /\ alive[p] /\ cs[p].kind = "rel" /\ cs[p].step = "counted" /\ ipc = p
  /\ LET j == cs[p].job
     IN /\ files' = [files EXCEPT ![j] = "absent"] /\ pend' = IF Present(j) THEN Tell({"deleted"}, j) ELSE pend
  /\ cs' = [cs EXCEPT ![p].step = "deleted"]
  /\ UNCHANGED <<ipc, alive, obs, avail, cache, watching, jobst, dstat, notify, reclaiming, wl, info>>

(* the same at the grain of TokenFile.delete(): is_file(), then unlink() -- the reclaim thread of another scheduler can
   remove the file in between (the trace specification keeps the composed step: the hook is between the two) *)
RelCheck(p) ==
  /\ alive[p] /\ cs[p].kind = "rel" /\ cs[p].step = "counted" /\ ipc = p
  /\ cs' = [cs EXCEPT ![p].step = IF Present(cs[p].job) THEN "checked" ELSE "deleted"]
  /\ UNCHANGED <<files, ipc, alive, obs, avail, cache, watching, pend, jobst, dstat, notify, reclaiming, wl, info>>
RelUnlink(p) ==
  /\ alive[p] /\ cs[p].kind = "rel" /\ cs[p].step = "checked" /\ ipc = p
  /\ LET j == cs[p].job
     IN IF Present(j) \/ FixF26
        THEN /\ files' = [files EXCEPT ![j] = "absent"] /\ pend' = IF Present(j) THEN Tell({"deleted"}, j) ELSE pend
             /\ cs' = [cs EXCEPT ![p].step = "deleted"]
             /\ UNCHANGED <<ipc, avail, cache, jobst, notify>>
        ELSE (* FileNotFoundError out of release(): the locks are given back, the count was already corrected, nobody is notified *)
             /\ cs' = [cs EXCEPT ![p] = None] /\ ipc' = "free"
             /\ avail' = [avail EXCEPT ![p] = IF j \in cache[p] THEN @ + Req[j] ELSE @]
             /\ cache' = [cache EXCEPT ![p] = @ \ {j}]
             /\ jobst' = [jobst EXCEPT ![j] = "released"]
             /\ UNCHANGED <<files, pend, notify>>
  /\ UNCHANGED <<alive, obs, watching, dstat, reclaiming, wl, info>>

(* the taken token is known (cached): the amount comes back, the dependents are notified *)
RelOk(p) ==
  /\ alive[p] /\ cs[p].kind = "rel" /\ cs[p].step \in {"counted", "deleted"}
  /\ cs[p].step = "deleted" \/ ~Present(cs[p].job)       \* (the file is removed first, unless somebody else has done it)
  /\ LET j == cs[p].job
     IN /\ avail' = [avail EXCEPT ![p] = IF j \in cache[p] THEN @ + Req[j] ELSE @]
        /\ cache' = [cache EXCEPT ![p] = @ \ {j}]
        /\ jobst' = [jobst EXCEPT ![j] = "released"]
  /\ cs' = [cs EXCEPT ![p] = None] /\ ipc' = "free"
  (* aio_notify() -- which a release that found its file missing used to skip (the deletion event had done it; since events
     bearing the name of a token held are ignored, the release notifies in every case: part of the repair F28) *)
  /\ notify' = IF cs[p].step = "deleted" \/ FixF28
               THEN [notify EXCEPT ![p] = @ \cup {k \in Jobs : Owner[k] = p /\ jobst[k] \in Waiting}] ELSE notify
  /\ UNCHANGED <<files, pend, alive, obs, watching, dstat, reclaiming, wl, info>>

(* aio_notify after a release / a deleted event: every waiting dependency of this process is re-checked *)
Recheck(p, j) ==
  /\ alive[p] /\ (StrictEvents => j \in notify[p])
  /\ notify' = [notify EXCEPT ![p] = @ \ {j}]
  /\ dstat' = IF avail[p] > 0 /\ jobst[j] # "idle" THEN [dstat EXCEPT ![j] = Status(p, j)] ELSE dstat   \* every dependent is re-checked
  /\ UNCHANGED <<files, ipc, cs, alive, obs, avail, cache, watching, pend, jobst, reclaiming, wl, info>>

(* ---------------- the job ---------------- *)
JobStart(j) == /\ jobst[j] = "holding" /\ alive[Owner[j]] /\ cs[Owner[j]].job # j /\ jobst' = [jobst EXCEPT ![j] = "running"]
               /\ UNCHANGED <<files, ipc, cs, alive, obs, avail, cache, watching, pend, dstat, notify, reclaiming, wl, info>>
(* the start of the job is aborted (another dependency could not be locked): the job lock is given back first *)
Abort(j) == /\ jobst[j] = "holding" /\ alive[Owner[j]] /\ jobst' = [jobst EXCEPT ![j] = "aborting"]
            /\ UNCHANGED <<files, ipc, cs, alive, obs, avail, cache, watching, pend, dstat, notify, reclaiming, wl, info>>
JobEnd(j) == /\ jobst[j] = "running" /\ jobst' = [jobst EXCEPT ![j] = "ended"]
             /\ UNCHANGED <<files, ipc, cs, alive, obs, avail, cache, watching, pend, dstat, notify, reclaiming, wl, info>>

(* ---------------- observer thread (no ipc lock) ---------------- *)
OnCreatedOrModified(p, kind, j) ==
  /\ alive[p] /\ obs[p] /\ (StrictEvents => <<kind, j>> \in pend[p]) /\ cs[p] = None       \* (the handler takes the in-process lock)
  /\ pend' = [pend EXCEPT ![p] = @ \ {<<kind, j>>}]
  /\ IF j \in cache[p] \/ files[j] = "absent" THEN UNCHANGED <<cache, watching, obs, notify, reclaiming, wl, info>>
     ELSE IF files[j] = "empty"
          THEN (* parse error: ignored when repaired, otherwise the observer thread dies *)
               /\ obs' = [obs EXCEPT ![p] = FixF5] /\ UNCHANGED <<cache, watching, notify, reclaiming, wl, info>>
          ELSE /\ cache' = [cache EXCEPT ![p] = @ \cup {j}] /\ watching' = [watching EXCEPT ![p] = @ \cup {j}] /\ UNCHANGED obs
  /\ UNCHANGED <<files, ipc, cs, alive, avail, jobst, dstat, notify, reclaiming, wl, info>>

OnDeleted(p, j) ==
  /\ alive[p] /\ obs[p] /\ (StrictEvents => <<"deleted", j>> \in pend[p]) /\ cs[p] = None
  /\ pend' = [pend EXCEPT ![p] = @ \ {<<"deleted", j>>}]
  /\ IF j \in cache[p] /\ ~(FixF28 /\ j \in Own(p))        \* (repaired: a token this process holds -- the event is a late one)
     THEN /\ cache' = [cache EXCEPT ![p] = @ \ {j}] /\ avail' = [avail EXCEPT ![p] = @ + Req[j]]
          /\ notify' = IF avail[p] + Req[j] > 0
                       THEN [notify EXCEPT ![p] = @ \cup {k \in Jobs : Owner[k] = p /\ jobst[k] \in Waiting}] ELSE notify
     ELSE UNCHANGED <<cache, avail, notify, reclaiming, wl, info>>
  /\ UNCHANGED <<files, ipc, cs, alive, obs, watching, jobst, dstat, reclaiming, wl, info>>

(* ---------------- reclaim thread: the job has ended, its token file is deleted ---------------- *)
ReclaimDecide(p, j) ==
  /\ alive[p] /\ (StrictEvents => j \in watching[p])
  /\ \/ jobst[j] \in {"ended", "released", "aborting", "holding"}                         \* no pid file / process gone
     \/ info.resub > 0 /\ jobst[j] \in {"idle", "registered", "checked", "submitted"}     \* (submitted again, not yet started again)
  /\ jobst[j] # "holding" \/ ~alive[Owner[j]] \/ p = Owner[j]     \* (a live owner starts its job under the job lock -- which does
                                                                    \*  not exclude a thread of the same process: fcntl locks)
  /\ watching' = [watching EXCEPT ![p] = @ \ {j}] /\ reclaiming' = [reclaiming EXCEPT ![p] = @ \cup {j}]
  /\ UNCHANGED <<files, pend, ipc, cs, alive, obs, avail, cache, jobst, dstat, notify, wl, info>>

(* who holds the run lock of job j: its scheduler from before the tokens are taken until the job process exists, then the
   job process until it ends *)
JobLocked(j) == \/ jobst[j] = "running"
                \/ alive[Owner[j]] /\ (jobst[j] = "holding" \/ (cs[Owner[j]].kind = "acq" /\ cs[Owner[j]].job = j))

(* ... as seen by a thread of process p: the lock its own process holds does not stop it *)
JobLockedAgainst(p, j) == \/ jobst[j] = "running"
                          \/ p # Owner[j] /\ alive[Owner[j]] /\ (jobst[j] = "holding" \/ (cs[Owner[j]].kind = "acq" /\ cs[Owner[j]].job = j))

ReclaimDelete(p, j) ==
  /\ alive[p] /\ j \in reclaiming[p]
  /\ FixF23 => ~JobLockedAgainst(p, j)
  /\ reclaiming' = [reclaiming EXCEPT ![p] = @ \ {j}]
  /\ files' = [files EXCEPT ![j] = "absent"] /\ pend' = IF Present(j) THEN Tell({"deleted"}, j) ELSE pend
  /\ UNCHANGED <<ipc, cs, alive, obs, avail, cache, watching, jobst, dstat, notify, wl, info>>

(* ---------------- the total is declared again ---------------- *)
(* CounterToken.__init__ (force): under the ipc lock, token.info is rewritten and the directory recounted; the observers of
   the other processes are told that the file changed *)
Redeclare(p, n) ==
  /\ alive[p] /\ cs[p] = None /\ ipc = "free" /\ (Readable \/ FixF5)
  /\ \A j \in Jobs : Owner[j] = p => jobst[j] = "idle"       \* (a process that starts: it has submitted nothing yet)
  /\ info' = [info EXCEPT !.total = n, !.ptotal[p] = n, !.max = IF n > @ THEN n ELSE @,
                          !.pending = [q \in Procs |-> IF q # p /\ alive[q] /\ obs[q] THEN TRUE ELSE @[q]]]
  /\ avail' = [avail EXCEPT ![p] = n - Sum({j \in OnDisk : files[j] = "written"})]
  /\ cache' = [cache EXCEPT ![p] = {j \in OnDisk : files[j] = "written"}]
  /\ watching' = [watching EXCEPT ![p] = @ \cup ({j \in OnDisk : files[j] = "written"} \ cache[p])]
  /\ files' = [j \in Jobs |-> IF files[j] = "empty" THEN "absent" ELSE files[j]]
  /\ UNCHANGED <<ipc, cs, alive, obs, pend, jobst, dstat, notify, reclaiming, wl>>

(* ---------------- a process starts later (CounterToken.__init__) ---------------- *)
(* first step, under the ipc lock: the directory is counted, every token file found is cached and gets a reclaim thread; the
   directory is not watched yet: what is removed from now on -- by those very threads when the job has ended already -- is
   not reported to this process *)
StartCount(p) ==
  /\ info.started[p] = "no" /\ ~alive[p] /\ ipc = "free" /\ (Readable \/ FixF5)
  /\ alive' = [alive EXCEPT ![p] = TRUE]
  /\ avail' = [avail EXCEPT ![p] = info.total - Sum({j \in OnDisk : files[j] = "written"})]
  /\ cache' = [cache EXCEPT ![p] = {j \in OnDisk : files[j] = "written"}]
  /\ watching' = [watching EXCEPT ![p] = {j \in OnDisk : files[j] = "written"}]
  /\ files' = [j \in Jobs |-> IF files[j] = "empty" THEN "absent" ELSE files[j]]
  /\ info' = [info EXCEPT !.ptotal[p] = info.total, !.started[p] = "counted"]
  /\ UNCHANGED <<ipc, cs, obs, pend, jobst, dstat, notify, reclaiming, wl>>
(* second step: the directory is watched; repaired: and counted again under the ipc lock *)
StartWatch(p) ==
  /\ info.started[p] = "counted" /\ alive[p] /\ cs[p] = None
  /\ obs' = [obs EXCEPT ![p] = TRUE]
  /\ IF FixF27
     THEN /\ ipc = "free" /\ (Readable \/ FixF5)
          /\ avail' = [avail EXCEPT ![p] = info.total - Sum({j \in OnDisk : files[j] = "written"})]
          /\ cache' = [cache EXCEPT ![p] = {j \in OnDisk : files[j] = "written"}]
          /\ watching' = [watching EXCEPT ![p] = @ \cup ({j \in OnDisk : files[j] = "written"} \ cache[p])]
          /\ files' = [j \in Jobs |-> IF files[j] = "empty" THEN "absent" ELSE files[j]]
          /\ info' = [info EXCEPT !.ptotal[p] = info.total, !.started[p] = "yes"]
     ELSE /\ info' = [info EXCEPT !.started[p] = "yes"]
          /\ UNCHANGED <<avail, cache, watching, files>>
  /\ UNCHANGED <<ipc, cs, alive, pend, jobst, dstat, notify, reclaiming, wl>>

(* on_modified(token.info), observer thread, no lock: the difference with the total in memory is added to the available
   amount; when the token grew, the waiting dependencies are checked again *)
OnInfo(q) ==
  /\ alive[q] /\ obs[q] /\ (StrictEvents => info.pending[q])
  /\ LET delta == info.total - info.ptotal[q]
     IN /\ info' = [info EXCEPT !.ptotal[q] = info.total, !.pending[q] = FALSE]
        /\ avail' = [avail EXCEPT ![q] = @ + delta]
        /\ notify' = IF delta > 0 /\ avail[q] + delta > 0
                     THEN [notify EXCEPT ![q] = @ \cup {k \in Jobs : Owner[k] = q /\ jobst[k] \in Waiting}] ELSE notify
  /\ UNCHANGED <<files, ipc, cs, alive, obs, cache, watching, pend, jobst, dstat, reclaiming, wl>>

(* ---------------- death of a scheduler process ---------------- *)
Kill(p) ==
  /\ alive[p]
  /\ alive' = [alive EXCEPT ![p] = FALSE] /\ obs' = [obs EXCEPT ![p] = FALSE]
  /\ ipc' = (IF ipc = p THEN "free" ELSE ipc) /\ cs' = [cs EXCEPT ![p] = None]
  /\ watching' = [watching EXCEPT ![p] = {}] /\ pend' = [pend EXCEPT ![p] = {}] /\ notify' = [notify EXCEPT ![p] = {}]
  /\ reclaiming' = [reclaiming EXCEPT ![p] = {}]
  /\ info' = [info EXCEPT !.pending[p] = FALSE]
  /\ UNCHANGED <<files, avail, cache, jobst, dstat, wl>>

Next ==
  \/ \E j \in Jobs : SubmitAdd(j) \/ SubmitCheck(j) \/ JobStart(j) \/ JobEnd(j) \/ Abort(j)
  \/ \E p \in Procs, j \in Jobs, k \in {"acq", "rel"} : Lock(p, k, j)
  \/ \E j \in Jobs, c \in wl.resub : Resubmit(j, c)
  \/ \E p \in Procs : OnInfo(p) \/ \E n \in wl.totals : n # info.total /\ Redeclare(p, n)
  \/ \E p \in Procs : StartCount(p) \/ StartWatch(p)
  \/ \E p \in Procs : Recount(p) \/ AcqFail(p) \/ CreateOpen(p) \/ CreateWrite(p) \/ AcqOk(p) \/ RelCheck(p) \/ RelUnlink(p) \/ RelOk(p) \/ Kill(p)
  \/ \E p \in Procs, j \in Jobs : Recheck(p, j) \/ OnDeleted(p, j) \/ ReclaimDecide(p, j) \/ ReclaimDelete(p, j)
        \/ OnCreatedOrModified(p, "created", j) \/ OnCreatedOrModified(p, "modified", j)

Spec == (\E w \in {} : InitWith(w)) /\ [][Next]_vars   \* Init is provided by the MC / trace modules

(* ---------------- properties ---------------- *)
Holders == {j \in Jobs : files[j] = "written"}
(* C08: the jobs holding the token never hold more than its total *)
Capacity == Sum(Holders) <= info.max       \* (a total declared again never takes back what running jobs hold)
(* C08: ... and the jobs that run under the token are among them *)
RunningHoldFile == \A j \in Jobs : jobst[j] = "running" => files[j] = "written"
RunningUnderCapacity == Sum({j \in Jobs : jobst[j] = "running"}) <= info.max
(* C08: only the process inside the critical section touches token files on behalf of an acquisition *)
MutualExclusion == \A p \in Procs : cs[p] # None => ipc = p
(* C09: a token file is only taken away from a job that has ended (or never started because its scheduler died) *)
ReclaimOnlyAfterEnd == [][\A j \in Jobs : (files[j] = "written" /\ files'[j] = "absent" /\ jobst'[j] = jobst[j]) => jobst[j] # "running"]_vars
(* C09: observers survive (otherwise releases made by other processes are never noticed) *)
ObserversSurvive == \A p \in Procs : (alive[p] /\ info.started[p] = "yes") => obs[p]
(* C09: at quiescence, a waiting job whose request fits has been told so *)
Quiescent == /\ \A p \in Procs : cs[p] = None /\ pend[p] = {} /\ notify[p] = {} /\ ~(alive[p] /\ obs[p] /\ info.pending[p])
             /\ \A j \in Jobs : jobst[j] \notin {"registered", "checked"}            \* no submission half-way
             /\ \A p \in Procs : alive[p] => info.started[p] # "counted"                         \* no process start half-way
             /\ \A j \in Jobs : alive[Owner[j]] => jobst[j] \notin {"holding", "aborting", "running", "ended"}   \* live schedulers have released
             /\ \A p \in Procs, j \in Jobs : ~ENABLED ReclaimDecide(p, j) /\ j \notin reclaiming[p]
Informed == Quiescent => \A j \in Jobs : (jobst[j] = "submitted" /\ alive[Owner[j]] /\ Req[j] <= info.total - Sum(Holders)) => dstat[j] = "OK"
(* C09: a half-written token file always has a live writer (otherwise nobody can use the token any more) *)
(* (with the repair an orphan empty file is harmless: the next recount removes it) *)
NoOrphanEmptyFile == FixF5 \/ \A j \in Jobs : files[j] = "empty" => \E p \in Procs : alive[p] /\ cs[p].job = j /\ cs[p].step = "opened"
TypeOK == ipc \in Procs \cup {"free"}
=============================================================================
