SPECIFICATION TraceSpec
CONSTRAINT Progress
POSTCONDITION Accepted
CHECK_DEADLOCK FALSE
