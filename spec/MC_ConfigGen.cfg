SPECIFICATION Spec
CONSTANT FixF1 = TRUE
CONSTANT FixF18 = TRUE
CONSTANT Small = TRUE
INVARIANT GenDistinct
INVARIANT GenInside
INVARIANT GenReachedAll
CHECK_DEADLOCK FALSE
