------------------------------ MODULE MC_Sched ------------------------------
(* Exhaustive exploration of XpmScheduler over a family of small workloads *)
EXTENDS XpmScheduler

Sub(n) == [op |-> "submit", n |-> n]
W == [op |-> "wait", n |-> NONE]
WJ(n) == [op |-> "waitjob", n |-> n]
WS == [op |-> "wait", n |-> "sigint"]     \* a wait during which Ctrl-C may arrive
K == [op |-> "kill", n |-> NONE]
R == [op |-> "restart", n |-> NONE]
NX == [op |-> "newxp", n |-> NONE]       \* a second experiment in the same program

NoTok == [t \in {} |-> 0]
AllFixed == {"F2", "F3", "F4"}

Mk(names, ninst, deps, tokens, cap, req, codes, program, fix) ==
  [ names |-> names,
    inst |-> [n \in names |-> [k \in 1..ninst[n] |-> n \o "#" \o ToString(k - 1)]],
    deps |-> deps, tokens |-> tokens, cap |-> cap, req |-> req, codes |-> codes,
    program |-> program, fix |-> fix ]

One(names) == [n \in names |-> 1]
Ok(names) == [n \in names |-> <<0>>]
NoReq(names) == [n \in names |-> NoTok]

(* dependency graphs and failures *)
Chain3(codes, fix) ==
  Mk({"a", "b", "c"}, One({"a", "b", "c"}),
     [a |-> {}, b |-> {"a"}, c |-> {"b"}], {}, NoTok, NoReq({"a", "b", "c"}), codes,
     <<Sub("a"), Sub("b"), Sub("c"), W>>, fix)

Diamond(codes, fix) ==
  Mk({"a", "b", "c", "d"}, One({"a", "b", "c", "d"}),
     [a |-> {}, b |-> {"a"}, c |-> {"a"}, d |-> {"b", "c"}], {}, NoTok, NoReq({"a", "b", "c", "d"}), codes,
     <<Sub("a"), Sub("b"), Sub("c"), Sub("d"), W>>, fix)

(* one token *)
Tok(cap, ra, rb, rc, codes, fix) ==
  Mk({"a", "b", "c"}, One({"a", "b", "c"}),
     [a |-> {}, b |-> {}, c |-> {}], {"t"}, [t |-> cap],
     [a |-> [t |-> ra], b |-> [t |-> rb], c |-> [t |-> rc]], codes,
     <<Sub("a"), Sub("b"), Sub("c"), W>>, fix)

Tok2(cap, ra, rb, fix) ==
  Mk({"a", "b"}, One({"a", "b"}), [a |-> {}, b |-> {}], {"t"}, [t |-> cap],
     [a |-> [t |-> ra], b |-> [t |-> rb]], Ok({"a", "b"}), <<Sub("a"), Sub("b"), W>>, fix)

TokDep(fix) ==
  Mk({"a", "b", "c"}, One({"a", "b", "c"}),
     [a |-> {}, b |-> {"a"}, c |-> {}], {"t"}, [t |-> 2],
     [a |-> [t |-> 1], b |-> [t |-> 2], c |-> [t |-> 2]], Ok({"a", "b", "c"}),
     <<Sub("a"), Sub("b"), Sub("c"), W>>, fix)

TwoTok(fix) ==
  Mk({"a", "b"}, One({"a", "b"}), [a |-> {}, b |-> {}], {"t", "u"}, [t |-> 1, u |-> 1],
     [a |-> [t |-> 1, u |-> 1], b |-> [t |-> 1, u |-> 1]], Ok({"a", "b"}),
     <<Sub("a"), Sub("b"), W>>, fix)

(* duplicates and re-submission *)
Dup(fix) ==
  Mk({"a", "b"}, [a |-> 2, b |-> 2], [a |-> {}, b |-> {"a"}], {}, NoTok, NoReq({"a", "b"}), Ok({"a", "b"}),
     <<Sub("a"), Sub("b"), Sub("a"), Sub("b"), W>>, fix)

Resubmit(fix) ==
  Mk({"a", "b"}, [a |-> 2, b |-> 1], [a |-> {}, b |-> {"a"}], {}, NoTok, NoReq({"a", "b"}),
     [a |-> <<1, 0>>, b |-> <<0>>],
     <<Sub("a"), WJ("a"), Sub("a"), Sub("b"), W>>, fix)

ResubmitEarly(fix) ==
  Mk({"a"}, [a |-> 3], [a |-> {}], {}, NoTok, NoReq({"a"}), [a |-> <<1, 0>>],
     <<Sub("a"), Sub("a"), Sub("a"), W>>, fix)

(* later experiment, death and restart *)
Rerun(codes, fix) ==
  Mk({"a", "b"}, One({"a", "b"}), [a |-> {}, b |-> {"a"}], {}, NoTok, NoReq({"a", "b"}), codes,
     <<Sub("a"), Sub("b"), W, R, Sub("a"), Sub("b"), W>>, fix)

KillRestart(fix) ==
  Mk({"a", "b"}, One({"a", "b"}), [a |-> {}, b |-> {"a"}], {}, NoTok, NoReq({"a", "b"}), Ok({"a", "b"}),
     <<Sub("a"), Sub("b"), K, R, Sub("a"), Sub("b"), W>>, fix)

KillRestartTok(fix) ==
  Mk({"a", "b"}, One({"a", "b"}), [a |-> {}, b |-> {}], {"t"}, [t |-> 1],
     [a |-> [t |-> 1], b |-> [t |-> 1]], Ok({"a", "b"}),
     <<Sub("a"), Sub("b"), K, R, Sub("a"), Sub("b"), W>>, fix)

(* Ctrl-C during the wait, then the same experiment again *)
StopRestart(codes, fix) ==
  Mk({"a", "b"}, One({"a", "b"}), [a |-> {}, b |-> {"a"}], {}, NoTok, NoReq({"a", "b"}), codes,
     <<Sub("a"), Sub("b"), WS, R, Sub("a"), Sub("b"), W>>, fix)
StopRestartTok(fix) ==
  Mk({"a", "b"}, One({"a", "b"}), [a |-> {}, b |-> {}], {"t"}, [t |-> 1],
     [a |-> [t |-> 1], b |-> [t |-> 1]], Ok({"a", "b"}),
     <<Sub("a"), Sub("b"), WS, R, Sub("a"), Sub("b"), W>>, fix)

(* the output of a job of the first experiment used by the second one, which does not submit that job again *)
Reuse(codes, fix) ==
  Mk({"a", "b", "c"}, One({"a", "b", "c"}), [a |-> {}, b |-> {"a"}, c |-> {}], {}, NoTok, NoReq({"a", "b", "c"}), codes,
     <<Sub("a"), W, NX, Sub("b"), Sub("c"), W>>, fix)
ReuseAgain(codes, fix) ==
  Mk({"a", "b"}, [a |-> 2, b |-> 1], [a |-> {}, b |-> {"a"}], {}, NoTok, NoReq({"a", "b"}), codes,
     <<Sub("a"), W, NX, Sub("a"), Sub("b"), W>>, fix)

Codes3 == {[a |-> <<x>>, b |-> <<y>>, c |-> <<z>>] : x, y, z \in {0, 1}}

WorkloadsDag == {Chain3(c, AllFixed) : c \in Codes3}
                  \cup {Chain3([a |-> <<0>>, b |-> <<9>>, c |-> <<0>>], AllFixed)}
                  \cup {Chain3([a |-> <<0>>, b |-> <<8>>, c |-> <<0>>], AllFixed)}      \* b's process cannot be started      \* b's process is killed (no marker, stale pid file)
                  \cup {Diamond([a |-> <<0>>, b |-> <<x>>, c |-> <<y>>, d |-> <<0>>], AllFixed) : x, y \in {0, 1}}
                  \cup {Reuse([a |-> <<x>>, b |-> <<0>>, c |-> <<y>>], AllFixed) : x, y \in {0, 1}}
                  \cup {ReuseAgain([a |-> <<1, 0>>, b |-> <<0>>], AllFixed), ReuseAgain([a |-> <<0>>, b |-> <<0>>], AllFixed)}
WorkloadsTok == {Tok(3, 2, 2, 1, Ok({"a", "b", "c"}), AllFixed), Tok(3, 1, 1, 3, Ok({"a", "b", "c"}), AllFixed),
                 Tok(1, 1, 1, 1, Ok({"a", "b", "c"}), AllFixed),
                 Tok(2, 2, 1, 2, [a |-> <<1>>, b |-> <<0>>, c |-> <<0>>], AllFixed),
                 Tok2(1, 1, 1, AllFixed), Tok2(2, 1, 2, AllFixed), TokDep(AllFixed), TwoTok(AllFixed)}
WorkloadsSub == {Dup(AllFixed), Resubmit(AllFixed), ResubmitEarly(AllFixed)}
WorkloadsRestart == {Rerun(Ok({"a", "b"}), AllFixed), Rerun([a |-> <<1, 0>>, b |-> <<0>>], AllFixed),
                     Rerun([a |-> <<9, 0>>, b |-> <<0>>], AllFixed),
                     KillRestart(AllFixed), KillRestartTok(AllFixed)}
WorkloadsStop == {StopRestart(Ok({"a", "b"}), AllFixed), StopRestart([a |-> <<1, 0>>, b |-> <<0>>], AllFixed),
                  StopRestartTok(AllFixed)}
WorkloadsPinned == {Tok2(1, 1, 1, {}), Tok(3, 2, 2, 1, Ok({"a", "b", "c"}), {"F4"}), Resubmit({"F2", "F4"})}

CONSTANT Family
Workloads == CASE Family = "dag" -> WorkloadsDag
               [] Family = "tok" -> WorkloadsTok
               [] Family = "sub" -> WorkloadsSub
               [] Family = "restart" -> WorkloadsRestart
               [] Family = "stop" -> WorkloadsStop
               [] Family = "live" -> {Tok2(1, 1, 1, AllFixed), Tok2(2, 1, 2, AllFixed), Resubmit(AllFixed),
                                      Chain3([a |-> <<0>>, b |-> <<1>>, c |-> <<0>>], AllFixed)}
               [] Family = "pinnedF4" -> {Tok2(1, 1, 1, {"F2", "F3"})}
               [] Family = "pinnedF2" -> {Tok(3, 2, 2, 1, Ok({"a", "b", "c"}), {"F3", "F4"})}
               [] Family = "pinnedF3" -> {Resubmit({"F2", "F4"})}

MCInit == wl \in Workloads /\ s = InitState
MCSpec == MCInit /\ [][Next]_vars

(* the scheduler may die at any moment only in the restart family *)
DieAnywhere == Family = "restart" /\ Running /\ Op.op = "kill" /\ (Die \/ \E i \in Insts : DieAfterSpawn(i))
MCNextR == Next \/ DieAnywhere
MCSpecR == MCInit /\ [][MCNextR]_vars

(* fairness: every enabled step of the loop, of a helper thread, of a process and of the main thread is eventually taken *)
FairSpec == MCSpec /\ WF_vars(Next)
AllFinal == \A i \in NewInsts : s.jstate[i] \in Final
EventuallyAllFinal == <>[](ProgramEnded /\ AllFinal /\ s.phase = "closed")
=============================================================================
