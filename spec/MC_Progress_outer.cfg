SPECIFICATION Spec
CONSTANT MaxLevel = 2
CONSTANT Values = {0, 500, 1000}
CONSTANT Descs = {"none", "a", "b"}
CONSTANT Depth = 4
CONSTANT NestedOnly = TRUE
CONSTANT PadOwnNumber = FALSE
CONSTANT ShrinkReported = FALSE
INVARIANT TypeOK
INVARIANT OuterConsistent
CHECK_DEADLOCK FALSE
