--------------------------- MODULE XpmJobDir_Trace ---------------------------
(***************************************************************************)
(* Validation of histories recorded from real job processes (engine E2):    *)
(* launches, body begin/end, injected and external signals and post-mortem  *)
(* observations are events; the statements of TaskRunner between two        *)
(* events and the delivery of an external signal are silent steps inferred  *)
(* by TLC.  A history is accepted iff all its events can be consumed.       *)
(***************************************************************************)
EXTENDS XpmJobDir, Json, IOUtils, TLCExt

VARIABLES tid, l, pending   \* pending[p]: external signal sent, not yet delivered

Traces == JsonDeserialize(IOEnv.TRACE_FILE)
TheTrace == Traces[tid].ev
Ev == TheTrace[l]
tvars == <<vars, tid, l, pending>>

IsEvent(a) == l <= Len(TheTrace) /\ Ev.e = a /\ l' = l + 1 /\ UNCHANGED tid

RcOk(model, observed) == model = observed

Logged ==
  \/ IsEvent("hlock") /\ HLock /\ UNCHANGED pending
  \/ IsEvent("hunlock") /\ HUnlock /\ UNCHANGED pending
  \/ IsEvent("pidwrite") /\ PidWrite /\ UNCHANGED pending
  \/ IsEvent("spawn") /\ Spawn(Ev.p) /\ fails[Ev.p] = Ev.fail /\ UNCHANGED pending
  \/ IsEvent("gate") /\ GateOpen(Ev.p) /\ UNCHANGED pending
  \/ IsEvent("begin") /\ BodyBegin(Ev.p) /\ UNCHANGED pending
  \/ IsEvent("end") /\ BodyEnd(Ev.p) /\ UNCHANGED pending
  \/ IsEvent("fail") /\ BodyFail(Ev.p) /\ UNCHANGED pending
  \/ IsEvent("inject") /\ Signal(Ev.p, Ev.sig) /\ UNCHANGED pending
  \/ IsEvent("paused") /\ UNCHANGED <<vars, pending>>      \* the process is stopped before a statement (preemption by the harness)
  \/ IsEvent("resumed") /\ UNCHANGED <<vars, pending>>
  (* the harness waited long enough after sending a signal to a live process: it has been delivered *)
  \/ IsEvent("deadline") /\ pending[Ev.p] = NONE /\ UNCHANGED <<vars, pending>>
  \/ IsEvent("extsignal") /\ pending' = [pending EXCEPT ![Ev.p] = Ev.sig] /\ UNCHANGED vars
  \/ /\ IsEvent("exit") /\ pc[Ev.p] = "dead" /\ rc[Ev.p] = Ev.rc
     /\ (Ev.obs =>
           /\ done = Ev.files.done /\ failedm = Ev.files.failed /\ pidf = Ev.files.pid
           /\ (lock = "free") = Ev.lockfree)
     /\ UNCHANGED <<vars, pending>>

Silent ==
  /\ l <= Len(TheTrace)
  /\ UNCHANGED <<tid, l>>
  /\ \/ \E p \in Procs : (Step(p) \/ BodyGate(p)) /\ UNCHANGED pending
     \/ \E p \in Procs : /\ pending[p] # NONE
                         /\ IF Alive(p) /\ sig[p] = NONE THEN Signal(p, pending[p]) ELSE UNCHANGED vars
                         /\ pending' = [pending EXCEPT ![p] = NONE]

TraceNext == Logged \/ Silent

TraceInit ==
  /\ tid \in DOMAIN Traces
  /\ Init
  /\ done = Traces[tid].ev[1].done /\ failedm = Traces[tid].ev[1].failed
  /\ fails = [p \in Procs |-> \E i \in DOMAIN Traces[tid].ev :
                                 Traces[tid].ev[i].e = "spawn" /\ Traces[tid].ev[i].p = p /\ Traces[tid].ev[i].fail]
  /\ l = 2
  /\ pending = [p \in Procs |-> NONE]

TraceSpec == TraceInit /\ [][TraceNext]_tvars

InvList ==
  << <<"OneBodyAtATime", OneBodyAtATime>>, <<"NoBodyAfterDone", NoBodyAfterDone>>,
     <<"LockHolderAlive", LockHolderAlive>>, <<"DoneOnlyIfBodyCompleted", DoneOnlyIfBodyCompleted>>,
     <<"HandledSignalInBody", HandledSignalInBody>>, <<"NoPidAfterOwnEnd", NoPidAfterOwnEnd>> >>
ToSet(q) == {q[x] : x \in DOMAIN q}
BrokenInvs == {c[1] : c \in {x \in ToSet(InvList) : ~x[2]}}

Progress ==
  /\ (TLCGet(tid) < l - 1 => TLCSet(tid, l - 1))
  /\ (BrokenInvs # {} => PrintT(<<"INV", tid, l - 1, BrokenInvs>>))

ASSUME \A t \in DOMAIN Traces : TLCSet(t, 0)

Accepted ==
  \A t \in DOMAIN Traces :
     \/ TLCGet(t) = Len(Traces[t].ev)
     \/ PrintT(<<"REJECTED", t, TLCGet(t), Len(Traces[t].ev)>>)
=============================================================================
