------------------------------ MODULE XpmConfig ------------------------------
(***************************************************************************)
(* Configuration graphs over the schema of XpmSchema (generated from the    *)
(* live classes): the byte stream fed to SHA-256 by HashComputer            *)
(* (core/objects.py l.189-341), the declarative signature it is supposed to *)
(* encode, identifier caches and sealing (l.740-857), generated paths       *)
(* (Sealer walk + PathGenerator), the definition list written to            *)
(* params.json (l.1120-1191) and runtime instantiation (l.1557-1609).       *)
(*                                                                         *)
(* A graph g is a function node -> [cls, vals, meta, pre, init, task].      *)
(* Values: <<"none">>, <<"int",i>>, <<"float",name>>, <<"str",s>>,          *)
(* <<"enum",member>>, <<"cfg",node>>, <<"list",seq>>, <<"dict",seq of       *)
(* <<key,value>>>>.  A child's 32-byte identifier appears in the stream as  *)
(* 256 <child stream> 257 (SHA-256 is assumed injective).                   *)
(***************************************************************************)
EXTENDS Naturals, Integers, Sequences, FiniteSets, TLC, XpmSchema

CONSTANT FixF1,  \* TRUE: a cached identifier computed inside a cycle is not reused (has_loops honoured)
         FixF18  \* TRUE: generated values take no part in `default == value` (repaired); FALSE: they do (pinned)

INF == 9999
Range(q) == {q[i] : i \in DOMAIN q}
Min(a, b) == IF a <= b THEN a ELSE b

RECURSIVE Concat(_)
Concat(ss) == IF ss = <<>> THEN <<>> ELSE Head(ss) \o Concat(Tail(ss))

(* struct.pack("!q", i) for |i| < 2^31, bytewise (TLC integers are 32-bit) *)
Byte(x, k) == (x \div (256 ^ k)) % 256
Int8(i) == IF i >= 0 THEN <<0, 0, 0, 0, Byte(i, 3), Byte(i, 2), Byte(i, 1), Byte(i, 0)>>
           ELSE LET x == -i - 1 IN <<255, 255, 255, 255, 255 - Byte(x, 3), 255 - Byte(x, 2), 255 - Byte(x, 1), 255 - Byte(x, 0)>>

Nodes(g) == DOMAIN g
Val(g, n, a) == IF a \in DOMAIN g[n].vals THEN g[n].vals[a] ELSE <<"none">>
IsCfg(v) == v[1] = "cfg"
MetaTrue(g, v) == IsCfg(v) /\ g[v[2]].meta = "true"

RemoveMeta(g, v) ==
  CASE v[1] = "list" -> <<"list", SelectSeq(v[2], LAMBDA x : ~MetaTrue(g, x))>>
    [] v[1] = "dict" -> <<"dict", SelectSeq(v[2], LAMBDA kv : ~MetaTrue(g, kv[2]))>>
    [] OTHER -> v

PosIn(path, m) == IF \E i \in DOMAIN path : path[i] = m THEN CHOOSE i \in DOMAIN path : path[i] = m ELSE 0

(* the cache state: c.sealed[n], c.rawc[n] = <<>> (nothing cached) or <<[s, loops]>> *)
NoCache(g) == [sealed |-> [n \in Nodes(g) |-> FALSE], rawc |-> [n \in Nodes(g) |-> <<>>]]

(* `default == value` when the default is a configuration (Config.__eq__): same class and, for every argument of
   the default, the same value.  Pinned behaviour (FixF18 = FALSE): generated arguments are compared too -- they are
   None in the default and in an unsealed copy and hold a value once the copy is sealed, so the identifier of the
   holder changed when it was sealed (and paths generated earlier landed outside the final job directory).
   sl[m] = m is sealed. *)
GivenVal(dflt, arg) ==
  LET hit == SelectSeq(dflt[3], LAMBDA nv : nv[1] = arg.name)
  IN IF hit # <<>> THEN hit[1][2] ELSE IF arg.default # <<"nodefault">> THEN arg.default ELSE <<"none">>
EqualsCfgDefault(g, sl, dflt, raw) ==
  /\ IsCfg(raw)
  /\ LET m == raw[2] IN
       /\ g[m].cls = dflt[2]
       /\ \A i \in DOMAIN ArgsOf[dflt[2]] :
            LET arg == ArgsOf[dflt[2]][i]
            IN IF arg.generator THEN (FixF18 \/ ~sl[m]) ELSE arg.constant \/ Val(g, m, arg.name) = GivenVal(dflt, arg)

(* is the argument skipped by the argument loop of HashComputer.update ? *)
Skipped(g, sl, n, arg) ==
  LET raw == Val(g, n, arg.name)
  IN \/ arg.ignored /\ ~(IsCfg(raw) /\ g[raw[2]].meta = "false")
     \/ arg.generator
     \/ ~arg.constant /\ ( (~arg.required /\ arg.default = <<"nodefault">> /\ raw = <<"none">>)
                          \/ (arg.default # <<"nodefault">> /\ arg.default[1] # "cfgdefault" /\ arg.default = RemoveMeta(g, raw))
                          \/ (arg.default[1] = "cfgdefault" /\ EqualsCfgDefault(g, sl, arg.default, raw)) )
     \/ MetaTrue(g, raw)

RECURSIVE EncVal(_, _, _, _), EncNode(_, _, _, _), EncSeq(_, _, _, _), EncDict(_, _, _, _, _), Compute(_, _, _, _), EncArgs(_, _, _, _, _)

EncSeq(g, c, path, vs) ==
  IF vs = <<>> THEN [s |-> <<>>, mr |-> INF]
  ELSE LET h == EncVal(g, c, path, Head(vs))
           t == EncSeq(g, c, path, Tail(vs))
       IN [s |-> h.s \o t.s, mr |-> Min(h.mr, t.mr)]

(* dict items sorted by key (Python order of the keys = StrOrder), meta values dropped *)
EncDict(g, c, path, kvs, k) ==
  IF k > Len(StrOrder) THEN [s |-> <<>>, mr |-> INF]
  ELSE LET key == StrOrder[k]
           hit == SelectSeq(kvs, LAMBDA kv : kv[1] = key /\ ~MetaTrue(g, kv[2]))
           rest == EncDict(g, c, path, kvs, k + 1)
       IN IF hit = <<>> THEN rest
          ELSE LET kk == EncVal(g, c, path, <<"str", key>>)
                   vv == EncVal(g, c, path, hit[1][2])
               IN [s |-> kk.s \o vv.s \o rest.s, mr |-> Min(vv.mr, rest.mr)]

EncVal(g, c, path, v) ==
  CASE v[1] = "none" -> [s |-> <<6>>, mr |-> INF]
    [] v[1] = "int" -> [s |-> <<1>> \o Int8(v[2]), mr |-> INF]
    [] v[1] = "float" -> [s |-> <<2>> \o FloatBytes[v[2]], mr |-> INF]
    [] v[1] = "str" -> [s |-> <<3>> \o StrBytes[v[2]], mr |-> INF]
    [] v[1] = "enum" -> [s |-> <<10>> \o StrBytes[EnumName[v[2]]], mr |-> INF]
    [] v[1] = "list" ->
         LET vs == SelectSeq(v[2], LAMBDA x : ~MetaTrue(g, x))
             r == EncSeq(g, c, path, vs)
         IN [s |-> <<7>> \o LenBytes[Len(vs) + 1] \o r.s, mr |-> r.mr]
    [] v[1] = "dict" ->
         LET r == EncDict(g, c, path, v[2], 1) IN [s |-> <<9>> \o r.s, mr |-> r.mr]
    [] v[1] = "cfg" ->
         LET m == v[2]
             idx == PosIn(path, m)
         IN IF idx > 0
            THEN [s |-> <<0, 11>> \o Int8(Len(path) - idx + 1), mr |-> idx]      \* CYCLE_REFERENCE, relative
            ELSE LET r == Compute(g, c, path, m) IN [s |-> <<0, 256>> \o r.s \o <<257>>, mr |-> r.mr]

(* HashComputer.compute: reuse the cached raw identifier of a sealed configuration *)
Compute(g, c, path, m) ==
  IF c.sealed[m] /\ c.rawc[m] # <<>> /\ (~FixF1 \/ ~c.rawc[m][1].loops)
  THEN [s |-> c.rawc[m][1].s, mr |-> INF]
  ELSE EncNode(g, c, Append(path, m), m)

EncArgs(g, c, path, n, args) ==
  IF args = <<>> THEN [s |-> <<>>, mr |-> INF]
  ELSE LET arg == Head(args)
           rest == EncArgs(g, c, path, n, Tail(args))
       IN IF Skipped(g, c.sealed, n, arg) THEN rest
          ELSE LET nm == EncVal(g, c, path, <<"str", arg.name>>)
                   vv == EncVal(g, c, path, Val(g, n, arg.name))
               IN [s |-> nm.s \o <<5>> \o vv.s \o rest.s, mr |-> Min(vv.mr, rest.mr)]

(* the configuration for which the identifier is computed (myself = True); n = last element of path *)
EncNode(g, c, path, n) ==
  LET tk == IF g[n].task # "0" /\ g[n].task # n
            THEN LET r == EncVal(g, c, path, <<"cfg", g[n].task>>) IN [s |-> <<8>> \o r.s, mr |-> r.mr]
            ELSE [s |-> <<>>, mr |-> INF]
      ar == EncArgs(g, c, path, n, ArgsOf[g[n].cls])
  IN [s |-> <<0>> \o tk.s \o TypeNameBytes[g[n].cls] \o ar.s, mr |-> Min(tk.mr, ar.mr)]

(* raw identifier of n requested at top level (ConfigInformation.identifiers, only_raw) *)
RawTop(g, c, n) ==
  LET r == EncNode(g, c, <<n>>, n) IN [s |-> r.s, loops |-> r.mr <= 1]

(* what identifiers() returns for n, given the caches *)
RawId(g, c, n) ==
  IF c.sealed[n] /\ c.rawc[n] # <<>> THEN c.rawc[n][1] ELSE RawTop(g, c, n)

Canonical(g, n) == RawTop(g, NoCache(g), n).s

(* ------------------------------------------------------------------ *)
(* Reachability (ConfigWalk): values, pre-tasks, init tasks, task link  *)
(* ------------------------------------------------------------------ *)
RECURSIVE CfgsIn(_)
CfgsIn(v) ==
  CASE v[1] = "cfg" -> {v[2]}
    [] v[1] = "list" -> UNION {CfgsIn(v[2][i]) : i \in DOMAIN v[2]}
    [] v[1] = "dict" -> UNION {CfgsIn(v[2][i][2]) : i \in DOMAIN v[2]}
    [] OTHER -> {}

Succ(g, n) == UNION {CfgsIn(g[n].vals[a]) : a \in DOMAIN g[n].vals} \cup Range(g[n].pre) \cup Range(g[n].init)
                \cup (IF g[n].task # "0" THEN {g[n].task} ELSE {})

RECURSIVE ReachFrom(_, _, _)
ReachFrom(g, frontier, seen) ==
  IF frontier = {} THEN seen
  ELSE LET new == (UNION {Succ(g, n) : n \in frontier}) \ seen
       IN ReachFrom(g, new, seen \cup new)
Reach(g, n) == ReachFrom(g, {n}, {n})

(* collect_pre_tasks: the pre-tasks of every configuration reachable from n *)
PreSet(g, n) == UNION {Range(g[m].pre) : m \in Reach(g, n)}

(* ------------------------------------------------------------------ *)
(* The declarative signature: what the documentation says the          *)
(* identifier depends on, as a nested value (no flattening to bytes).   *)
(* ------------------------------------------------------------------ *)
RECURSIVE SigVal(_, _, _), SigNode(_, _, _), SigSeq(_, _, _), SigDict(_, _, _, _), SigArgs(_, _, _, _)

SigSeq(g, path, vs) == IF vs = <<>> THEN <<>> ELSE <<SigVal(g, path, Head(vs))>> \o SigSeq(g, path, Tail(vs))

(* items in key order (a dict is unordered), meta values dropped *)
SigDict(g, path, kvs, k) ==
  IF k > Len(StrOrder) THEN <<>>
  ELSE LET hit == SelectSeq(kvs, LAMBDA kv : kv[1] = StrOrder[k] /\ ~MetaTrue(g, kv[2]))
       IN (IF hit = <<>> THEN <<>> ELSE <<<<StrOrder[k], SigVal(g, path, hit[1][2])>>>>) \o SigDict(g, path, kvs, k + 1)

SigVal(g, path, v) ==
  CASE v[1] = "list" -> <<"list", SigSeq(g, path, SelectSeq(v[2], LAMBDA x : ~MetaTrue(g, x)))>>
    [] v[1] = "dict" -> <<"dict", SigDict(g, path, v[2], 1)>>
    [] v[1] = "cfg" ->
         LET idx == PosIn(path, v[2])
         IN IF idx > 0 THEN <<"backref", Len(path) - idx + 1>> ELSE <<"cfg", SigNode(g, Append(path, v[2]), v[2])>>
    [] OTHER -> v

SigArgs(g, path, n, args) ==
  IF args = <<>> THEN <<>>
  ELSE (IF Skipped(g, [m \in Nodes(g) |-> FALSE], n, Head(args)) THEN <<>> ELSE <<<<Head(args).name, SigVal(g, path, Val(g, n, Head(args).name))>>>>)
         \o SigArgs(g, path, n, Tail(args))

SigNode(g, path, n) ==
  << TypeNameBytes[g[n].cls],
     IF g[n].task # "0" /\ g[n].task # n THEN SigVal(g, path, <<"cfg", g[n].task>>) ELSE <<"notask">>,
     SigArgs(g, path, n, ArgsOf[g[n].cls]) >>

Sig(g, n) == SigNode(g, <<n>>, n)

(* ------------------------------------------------------------------ *)
(* Generated paths: the Sealer walk (first-visit DFS, context keys)     *)
(* ------------------------------------------------------------------ *)
RECURSIVE WalkNode(_, _, _, _), WalkVal(_, _, _, _), WalkArgs(_, _, _, _, _), WalkSeq(_, _, _, _, _), WalkDict(_, _, _, _, _)

WalkVal(g, st, keys, v) ==
  CASE v[1] = "cfg" -> WalkNode(g, st, keys, v[2])
    [] v[1] = "list" -> WalkSeq(g, st, keys, v[2], 1)
    [] v[1] = "dict" -> WalkDict(g, st, keys, v[2], 1)
    [] OTHER -> st

WalkSeq(g, st, keys, vs, i) ==
  IF i > Len(vs) THEN st ELSE WalkSeq(g, WalkVal(g, st, Append(keys, ToString(i - 1)), vs[i]), keys, vs, i + 1)

WalkDict(g, st, keys, kvs, i) ==
  IF i > Len(kvs) THEN st ELSE WalkDict(g, WalkVal(g, st, Append(keys, kvs[i][1]), kvs[i][2]), keys, kvs, i + 1)

WalkArgs(g, st, keys, n, args) ==
  IF args = <<>> THEN st
  ELSE LET a == Head(args).name
           v == Val(g, n, a)
       IN WalkArgs(g, IF v[1] = "none" THEN st ELSE WalkVal(g, st, Append(keys, a), v), keys, n, Tail(args))

(* st = [visited, keys]: keys[n] = the context position at which n is first reached *)
WalkNode(g, st, keys, n) ==
  IF n \in st.visited \/ st.sealed[n] THEN st
  ELSE LET s0 == [st EXCEPT !.visited = @ \cup {n}, !.keys[n] = keys]
           s1 == WalkArgs(g, s0, keys, n, ArgsOf[g[n].cls])
           s2 == IF g[n].pre # <<>> THEN WalkSeq(g, s1, Append(keys, "__pre_tasks__"), [i \in DOMAIN g[n].pre |-> <<"cfg", g[n].pre[i]>>], 1) ELSE s1
           s3 == IF g[n].init # <<>> THEN WalkSeq(g, s2, Append(keys, "__init_tasks__"), [i \in DOMAIN g[n].init |-> <<"cfg", g[n].init[i]>>], 1) ELSE s2
           s4 == IF g[n].task # "0" /\ g[n].task # n THEN WalkNode(g, s3, keys, g[n].task) ELSE s3
       IN s4

GenWalk(g, sealed, root) ==
  WalkNode(g, [visited |-> {}, keys |-> [n \in Nodes(g) |-> <<"unreached">>], sealed |-> sealed], <<>>, root)

GenFile == ("K" :> <<"p", "p.txt">>) @@ ("K2" :> <<"q", "q.txt">>) @@ ("K2Old" :> <<"q", "q.txt">>) @@ ("K2Older" :> <<"q", "q.txt">>) @@ ("T" :> <<"r", "r.txt">>) @@ ("G" :> <<"p", "g.txt">>) @@ ("GF" :> <<"p", "f.txt">>)
(* the generated path of node n as a sequence of path components below the job directory *)
GenPath(keys, cls) == IF keys = <<>> THEN <<GenFile[cls][2]>> ELSE <<"out">> \o keys \o <<GenFile[cls][2]>>

(* ------------------------------------------------------------------ *)
(* The definition list written for a configuration (params.json,        *)
(* state_dict, save): post-order, every object once (l.1120-1191)       *)
(* ------------------------------------------------------------------ *)
RECURSIVE DefNode(_, _, _), DefVal(_, _, _), DefSeq(_, _, _, _), DefDict(_, _, _, _), DefArgs(_, _, _, _)

DefVal(g, st, v) ==
  CASE v[1] = "cfg" -> DefNode(g, st, v[2])
    [] v[1] = "list" -> DefSeq(g, st, v[2], 1)
    [] v[1] = "dict" -> DefDict(g, st, v[2], 1)
    [] OTHER -> st
DefSeq(g, st, vs, i) == IF i > Len(vs) THEN st ELSE DefSeq(g, DefVal(g, st, vs[i]), vs, i + 1)
DefDict(g, st, kvs, i) == IF i > Len(kvs) THEN st ELSE DefDict(g, DefVal(g, st, kvs[i][2]), kvs, i + 1)
DefArgs(g, st, n, args) ==
  IF args = <<>> THEN st ELSE DefArgs(g, DefVal(g, st, Val(g, n, Head(args).name)), n, Tail(args))

DefNode(g, st, n) ==
  IF n \in st.seen THEN st
  ELSE LET s0 == [st EXCEPT !.seen = @ \cup {n}]
           s1 == DefArgs(g, s0, n, ArgsOf[g[n].cls])
           s2 == IF g[n].task # "0" THEN DefNode(g, s1, g[n].task) ELSE s1
           s3 == DefSeq(g, s2, [i \in DOMAIN g[n].pre |-> <<"cfg", g[n].pre[i]>>], 1)
           s4 == DefSeq(g, s3, [i \in DOMAIN g[n].init |-> <<"cfg", g[n].init[i]>>], 1)
       IN [s4 EXCEPT !.order = Append(@, n)]

DefsOrder(g, root) == DefNode(g, [seen |-> {}, order |-> <<>>], root).order

(* ------------------------------------------------------------------ *)
(* Runtime objects (FromPython, recurse_task = False): the nodes        *)
(* instantiated by root.instance() and the pre-tasks it executes        *)
(* ------------------------------------------------------------------ *)
SuccNoTask(g, n) == UNION {CfgsIn(g[n].vals[a]) : a \in DOMAIN g[n].vals} \cup Range(g[n].pre) \cup Range(g[n].init)
RECURSIVE ReachNT(_, _, _)
ReachNT(g, frontier, seen) ==
  IF frontier = {} THEN seen
  ELSE LET new == (UNION {SuccNoTask(g, n) : n \in frontier}) \ seen IN ReachNT(g, new, seen \cup new)
InstNodes(g, root) == ReachNT(g, {root}, {root})
InstPre(g, root) == UNION {Range(g[m].pre) : m \in InstNodes(g, root)}
=============================================================================
