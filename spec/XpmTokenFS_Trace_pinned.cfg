SPECIFICATION TraceSpec
CONSTANT Procs = {"p1", "p2", "p3"}
CONSTANT Jobs = {"a", "b", "c", "d"}
CONSTANT StrictEvents = FALSE
CONSTANT FixF5 = FALSE
CONSTANT FixF23 = FALSE
CONSTANT FixF26 = FALSE
CONSTANT FixF27 = FALSE
CONSTANT FixF28 = FALSE
CONSTANT AddFirst = TRUE
CONSTRAINT Progress
POSTCONDITION Accepted
CHECK_DEADLOCK FALSE
