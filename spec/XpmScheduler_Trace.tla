------------------------- MODULE XpmScheduler_Trace -------------------------
(***************************************************************************)
(* Validation of executions recorded from the real scheduler (engine E1)    *)
(* against XpmScheduler: every recorded event must be a step of the named   *)
(* action of the specification and the full projected state must coincide   *)
(* after each step; every invariant of the specification is evaluated in    *)
(* every state of every recorded execution.                                 *)
(*                                                                         *)
(* One TLC run validates a batch: `tid` is chosen in Init, the position     *)
(* reached in each trace is kept in a TLCSet register (index = tid).        *)
(***************************************************************************)
EXTENDS XpmScheduler, Json, IOUtils, TLCExt

VARIABLES tid, l

Traces == JsonDeserialize(IOEnv.TRACE_FILE)

ToSet(q) == {q[x] : x \in DOMAIN q}

WlOf(j) ==
  LET N == ToSet(j.names)
      T == ToSet(j.tokens)
  IN [ names |-> N,
       inst |-> [n \in N |-> j.inst[n]],
       deps |-> [n \in N |-> ToSet(j.deps[n])],
       tokens |-> T,
       cap |-> [t \in T |-> j.cap[t]],
       req |-> [n \in N |-> [t \in T |-> j.req[n][t]]],
       codes |-> [n \in N |-> j.codes[n]],
       program |-> j.program,
       fix |-> ToSet(j.fix) ]

TheTrace == Traces[tid].ev
Ev == TheTrace[l]

(* --- projection of the specification state, clause by clause --- *)
Existing == {i \in Insts : s.jstate[i] # "NONE"}

ProjInst(i) ==
  [ state |-> s.jstate[i], unsat |-> s.unsat[i], ev |-> s.ev[i],
    dstat |-> {<<o, s.dstat[i][o]>> : o \in DOMAIN s.dstat[i]},
    held |-> s.held[i], result |-> s.result[i], pc |-> s.pc[i] ]

JInst(r) ==
  [ state |-> r.state, unsat |-> r.unsat, ev |-> r.ev,
    dstat |-> ToSet(r.dstat), held |-> ToSet(r.held), result |-> r.result, pc |-> r.pc ]

ProjWorld(n) ==
  [ done |-> s.done[n], failed |-> s.failedm[n], pid |-> s.pidf[n], procs |-> s.proc[n],
    lock |-> s.lockh[n], launches |-> s.launches[n], bodyruns |-> s.bodyruns[n],
    bodyends |-> s.bodyends[n] ]

Clauses(st) ==
  << <<"phase", s.phase = st.phase>>,
     <<"insts.domain", Existing = DOMAIN st.insts>>,
     <<"insts.state", \A i \in Existing \cap DOMAIN st.insts : ProjInst(i).state = JInst(st.insts[i]).state>>,
     <<"insts.unsat", \A i \in Existing \cap DOMAIN st.insts : ProjInst(i).unsat = JInst(st.insts[i]).unsat>>,
     <<"insts.ev", \A i \in Existing \cap DOMAIN st.insts : ProjInst(i).ev = JInst(st.insts[i]).ev>>,
     <<"insts.dstat", \A i \in Existing \cap DOMAIN st.insts : ProjInst(i).dstat = JInst(st.insts[i]).dstat>>,
     <<"insts.held", \A i \in Existing \cap DOMAIN st.insts : ProjInst(i).held = JInst(st.insts[i]).held>>,
     <<"insts.result", \A i \in Existing \cap DOMAIN st.insts : ProjInst(i).result = JInst(st.insts[i]).result>>,
     <<"insts.pc", \A i \in Existing \cap DOMAIN st.insts : ProjInst(i).pc = JInst(st.insts[i]).pc>>,
     <<"reg", {<<n, s.regmap[n]>> : n \in {m \in Names : s.regmap[m] # NONE}} = ToSet(st.reg)>>,
     <<"unfinished", s.unfinished = st.unfinished>>,
     <<"failed", s.failed = ToSet(st.failed)>>,
     <<"avail", {<<t, s.avail[t]>> : t \in Tokens} = ToSet(st.avail)>>,
     <<"ready", {<<e[1], e[2], e[3], s.ready[e]>> : e \in DOMAIN s.ready} = ToSet(st.ready)>>,
     <<"threads", s.threads = ToSet(st.threads)>>,
     <<"waiter", s.waiter = st.waiter>>,
     <<"stopreq", s.stopreq = st.stopreq>>,
     <<"exitmode", s.exitmode = st.exitmode>>,
     <<"world", \A n \in Names : ProjWorld(n) = st.world[n]>> >>

FailedClauses(st) == {c[1] : c \in {x \in ToSet(Clauses(st)) : ~x[2]}}

(* --- trace actions --- *)
IsEvent(a) == l <= Len(TheTrace) /\ Ev.a = a /\ l' = l + 1 /\ UNCHANGED tid

ActionList ==
  << <<"NoEarlyLaunch", NoEarlyLaunchA>>,
     <<"NoBodyAfterDone", NoBodyAfterDoneA>>,
     <<"NoLaunchWhenDoneAtSubmit", NoLaunchWhenDoneAtSubmitA>>,
     <<"FinalAbsorbing", FinalAbsorbingA>>,
     <<"TruthfulFinal", TruthfulFinalA>>,
     <<"EarlyReturnOnlyAfterStop", EarlyReturnOnlyAfterStopA>> >>

ActionChecks ==
  LET bad == {c[1] : c \in {x \in ToSet(ActionList) : ~x[2]}}
  IN bad # {} => PrintT(<<"INV", tid, l, bad>>)

TraceStep ==
  \/ IsEvent("UserSubmit") /\ UserSubmit(NameOf(Ev.args.j)) /\ s'.mwait = <<"reg", Ev.args.j>>
  \/ IsEvent("Register") /\ Register(Ev.args.j)
  \/ IsEvent("UserStart") /\ UserStart(Ev.args.j)
  \/ IsEvent("SubmitReturn") /\ SubmitReturn(Ev.args.j) /\ s.regres[Ev.args.j] = (IF Ev.args.r = "dup" THEN "dup" ELSE "new")
  \/ IsEvent("TaskStep") /\ TaskStep(Ev.args.j)
  \/ IsEvent("DepCheck") /\ DepCheck(Ev.args.j, Ev.args.o)
  \/ IsEvent("Notify") /\ Notify(Ev.args.j, Ev.args.o)
  \/ IsEvent("ThreadDone") /\ ThreadDone(Ev.args.kind, Ev.args.j)
  \/ IsEvent("ProcLock") /\ ProcLock(Ev.args.n, Ev.args.k)
  \/ IsEvent("ProcExit") /\ ProcExit(Ev.args.n, Ev.args.k)
        /\ s'.proc[Ev.args.n][Ev.args.k] = (IF Ev.args.code = 0 THEN "exit0" ELSE IF Ev.args.code = 9 THEN "killed" ELSE "exit1")
  \/ IsEvent("WaitCall") /\ WaitCall
  \/ IsEvent("WaiterStep") /\ WaiterStep
  \/ IsEvent("WaitReturn") /\ WaitReturn /\ s.waiter = Ev.args.r
  \/ IsEvent("Sigint") /\ Sigint
  \/ IsEvent("StopStep") /\ StopStep
  \/ IsEvent("WaitReturnStopped") /\ WaitReturnStopped /\ s.waiter = Ev.args.r
  \/ IsEvent("JobWaitCall") /\ JobWaitCall(NameOf(Ev.args.j)) /\ s'.mwait = <<"job", Ev.args.j>>
  \/ IsEvent("JobWaitReturn") /\ JobWaitReturn(Ev.args.j) /\ s.result[Ev.args.j] = Ev.args.r
  \/ IsEvent("Die") /\ Running /\ (IF Ev.args.at = "spawned" THEN DieAfterSpawn(Ev.args.j) ELSE Die)
  \/ IsEvent("Start") /\ Restart
  \/ IsEvent("StartSame") /\ NewXp
  \/ IsEvent("RmDone") /\ RmDone(Ev.args.n)
  \/ IsEvent("Internal") /\ UNCHANGED vars
  \/ IsEvent("End") /\ GoodEnd /\ UNCHANGED vars

TraceNext == TraceStep /\ ActionChecks

TraceInit ==
  /\ tid \in DOMAIN Traces
  /\ wl = WlOf(Traces[tid].wl)
  /\ s = InitState
  /\ l = 2     \* the first event is the Start of the first scheduler = InitState

TraceSpec == TraceInit /\ [][TraceNext]_<<vars, tid, l>>

(* --- acceptance, invariants and diagnostics (evaluated as a state constraint) --- *)
InvList ==
  << <<"OneBodyAtATime", OneBodyAtATime>>,
     <<"RegistryDedup", RegistryDedup>>,
     <<"SuccessfulBodyAtMostOnce", SuccessfulBodyAtMostOnce>>,
     <<"ResultIsFinal", ResultIsFinal>>,
     <<"WaitOnlyWhenAllFinal", WaitOnlyWhenAllFinal>>,
     <<"CounterNonNegative", CounterNonNegative>>,
     <<"StopOnlyOnRequest", StopOnlyOnRequest>>,
     <<"ExitReportsFailureIffFailed", ExitReportsFailureIffFailed>>,
     <<"FailedDependentsCancelled", FailedDependentsCancelled>>,
     <<"IndependentJobsRun", IndependentJobsRun>>,
     <<"Capacity", Capacity>>,
     <<"RunningUnderCapacity", RunningUnderCapacity>>,
     <<"IdleTokenIsFull", IdleTokenIsFull>> >>

BrokenInvs == {c[1] : c \in {x \in ToSet(InvList) : ~x[2]}}

Progress ==
  LET st == TheTrace[l - 1].st
      bad == FailedClauses(st)
  IN IF bad # {}
     THEN /\ PrintT(<<"MISMATCH", tid, l - 1, bad>>)
          /\ (IOEnv.XV_DEBUG = "1" => PrintT(<<"MODEL", tid, l - 1, [i \in Existing |-> ProjInst(i)], s.ready, s.threads, s.waiter, s.unfinished, s.avail>>))
          /\ FALSE
     ELSE /\ (TLCGet(tid) < l - 1 => TLCSet(tid, l - 1))
          /\ (BrokenInvs # {} => PrintT(<<"INV", tid, l - 1, BrokenInvs>>))

ASSUME \A t \in DOMAIN Traces : TLCSet(t, 0)

Accepted ==
  \A t \in DOMAIN Traces :
     \/ TLCGet(t) = Len(Traces[t].ev)
     \/ PrintT(<<"REJECTED", t, TLCGet(t), Len(Traces[t].ev)>>)

=============================================================================
