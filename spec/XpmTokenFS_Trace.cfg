SPECIFICATION TraceSpec
CONSTANT Procs = {"p1", "p2", "p3"}
CONSTANT Jobs = {"a", "b", "c", "d"}
CONSTANT StrictEvents = FALSE
CONSTANT FixF5 = TRUE
CONSTANT FixF26 = TRUE
CONSTANT FixF27 = TRUE
CONSTANT FixF28 = TRUE
CONSTANT FixF23 = TRUE
CONSTANT AddFirst = TRUE
CONSTRAINT Progress
POSTCONDITION Accepted
CHECK_DEADLOCK FALSE
