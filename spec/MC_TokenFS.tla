----------------------------- MODULE MC_TokenFS -----------------------------
EXTENDS XpmTokenFS
CONSTANT Variant
W2 == [owner |-> [j \in Jobs |-> IF j = "a" THEN "p1" ELSE "p2"], req |-> [j \in Jobs |-> 1], total |-> 1, totals |-> {}, resub |-> {}, late |-> {}]
W3 == [owner |-> [j \in Jobs |-> IF j = "c" THEN "p2" ELSE "p1"], req |-> [j \in Jobs |-> IF j = "c" THEN 2 ELSE 1], total |-> 2, totals |-> {}, resub |-> {}, late |-> {}]
(* the token is declared again with another total while jobs wait for it / hold it *)
W4 == [owner |-> [j \in Jobs |-> IF j = "a" THEN "p1" ELSE "p2"], req |-> [j \in Jobs |-> IF j = "a" THEN 2 ELSE 1], total |-> 1, totals |-> {3}, resub |-> {}, late |-> {}]
(* a job that comes back asking for more, while the reclaim thread of another scheduler still watches its first run *)
W5 == [owner |-> [j \in Jobs |-> IF j = "a" THEN "p1" ELSE "p2"], req |-> [j \in Jobs |-> IF j = "a" THEN 1 ELSE 2], total |-> 4, totals |-> {}, resub |-> {3}, late |-> {}]
(* both jobs belong to the same scheduler; the other one only watches (its reclaim thread can remove a token file) *)
W6 == [owner |-> [j \in Jobs |-> "p1"], req |-> [j \in Jobs |-> 1], total |-> 1, totals |-> {}, resub |-> {}, late |-> {}]
(* p2 starts when the job of p1 has been holding the token for a while, possibly after it ended *)
W7 == [owner |-> [j \in Jobs |-> IF j = "a" THEN "p1" ELSE "p2"], req |-> [j \in Jobs |-> 1], total |-> 1, totals |-> {}, resub |-> {}, late |-> {"p2"}]
(* ... and the job of p1 may come back once under the same token file name *)
W8 == [owner |-> [j \in Jobs |-> IF j = "a" THEN "p1" ELSE "p2"], req |-> [j \in Jobs |-> 1], total |-> 1, totals |-> {}, resub |-> {1}, late |-> {"p2"}]
MCInit == InitWith(IF Variant = "latestart_resub" THEN W8 ELSE IF Variant = "latestart" THEN W7 ELSE IF Variant = "raced" THEN W6 ELSE IF Variant = "resubmit" THEN W5 ELSE IF Variant = "two" THEN W2 ELSE IF Variant = "retotal" THEN W4 ELSE W3)
MCSpec == MCInit /\ [][Next]_vars
(* one scheduler death at most, to keep the model small *)
OneDeath == Cardinality({p \in Procs : ~alive[p] /\ info.started[p] # "no"}) <= 1
NoDeath == \A p \in Procs : alive[p] \/ info.started[p] = "no"
(* bounded exploration of the three-job workload (the lost notification of the other order shows at depth 23) *)
(* quick variant of the re-declaration workload: only the job that waits for the larger total is submitted *)
RetotalQuick == NoDeath /\ jobst["b"] = "idle"
ResubBound == NoDeath /\ TLCGet("level") <= 30        \* (the stale reclaim shows at depth 27)
NoDeath26 == NoDeath /\ TLCGet("level") <= 26
=============================================================================
