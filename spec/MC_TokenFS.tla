----------------------------- MODULE MC_TokenFS -----------------------------
EXTENDS XpmTokenFS
CONSTANT Variant
W2 == [owner |-> [j \in Jobs |-> IF j = "a" THEN "p1" ELSE "p2"], req |-> [j \in Jobs |-> 1], total |-> 1]
W3 == [owner |-> [j \in Jobs |-> IF j = "c" THEN "p2" ELSE "p1"], req |-> [j \in Jobs |-> IF j = "c" THEN 2 ELSE 1], total |-> 2]
MCInit == InitWith(IF Variant = "two" THEN W2 ELSE W3)
MCSpec == MCInit /\ [][Next]_vars
(* one scheduler death at most, to keep the model small *)
OneDeath == Cardinality({p \in Procs : ~alive[p]}) <= 1
NoDeath == \A p \in Procs : alive[p]
(* bounded exploration of the three-job workload (the lost notification of the other order shows at depth 23) *)
NoDeath26 == NoDeath /\ TLCGet("level") <= 26
=============================================================================
