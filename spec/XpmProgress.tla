----------------------------- MODULE XpmProgress -----------------------------
(* Progress reporting of a running task (not one of the listed properties: coverage of the system's behaviour).     *)
(*                                                                                                                  *)
(*   task process   notifications.Reporter: set_progress(value, level, desc) under the condition variable,         *)
(*                  reporter thread: for every *modified* level (value moved by more than the threshold, or the    *)
(*                  description changed), one HTTP request  progress?level=..&progress=..[&desc=..]                *)
(*   scheduler      server route -> Job.set_progress(level, value, desc): truncates to level+1, pads, sets         *)
(*                                                                                                                  *)
(* The request is synchronous (urlopen returns when the route has run): sending and applying is one step.           *)
(* Values are in thousandths.  A level is [lvl, desc, p, pp, pd] on the task side (LevelInformation: level number   *)
(* as stored, description, progress, progress / description last reported) and [desc, p] on the scheduler side.     *)
(*                                                                                                                  *)
(* Deviations of the code, kept as they are:                                                                        *)
(*   * padding levels are created with the *requested* level number, not their own position                        *)
(*     (LevelInformation(level, None, 0.0) in Reporter.set_progress);                                               *)
(*   * going back to an outer level whose value and description do not change truncates the task's levels but      *)
(*     reports nothing: the scheduler keeps showing the inner levels (ShrinkReported = FALSE).                      *)
EXTENDS Naturals, Integers, Sequences, TLC, Json

CONSTANTS MaxLevel, Values, Descs, Depth,
          NestedOnly,        \* TRUE: levels are opened one at a time (what nested progress bars do)
          PadOwnNumber,      \* TRUE: a padding level carries its own position (what a repair would do)
          ShrinkReported     \* TRUE: a truncation makes the level it goes back to modified (what a repair would do)

VARIABLES task, sched, hist
vars == <<task, sched, hist>>

Threshold == 10
None == "none"
Abs(x) == IF x < 0 THEN -x ELSE x
Fresh(l) == [lvl |-> l, desc |-> None, p |-> 0, pp |-> -1000, pd |-> None]      \* previous_progress = -1
Modified(li) == Abs(li.p - li.pp) > Threshold \/ li.pd # li.desc

Init == task = <<[lvl |-> 0, desc |-> None, p |-> -1000, pp |-> -1000, pd |-> None]>>     \* LevelInformation(0, None, -1)
        /\ sched = <<>> /\ hist = <<>>

(* Reporter.set_progress(progress, level, desc) *)
RECURSIVE Pad(_, _)
Pad(s, l) == IF l >= Len(s) THEN Pad(Append(s, Fresh(IF PadOwnNumber THEN Len(s) ELSE l)), l) ELSE s
SetF(t, v, l, d) ==
  IF l + 1 # Len(t) \/ v # t[l + 1].p \/ d # t[l + 1].desc
  THEN LET cut == SubSeq(t, 1, IF l + 1 < Len(t) THEN l + 1 ELSE Len(t))
           pad == Pad(cut, l)
           shr == IF ShrinkReported /\ l + 1 < Len(t) THEN [pad EXCEPT ![l + 1].pp = -1000] ELSE pad
           dsc == IF d # None THEN [shr EXCEPT ![l + 1].desc = d] ELSE shr
       IN [dsc EXCEPT ![l + 1].p = v]
  ELSE t

(* Job.set_progress(level, value, desc) *)
RECURSIVE SPad(_, _)
SPad(s, l) == IF Len(s) <= l THEN SPad(Append(s, [desc |-> None, p |-> 0]), l) ELSE s
Clamp(v) == IF v < 0 THEN 0 ELSE IF v > 1000 THEN 1000 ELSE v
Apply(s, l, v, d) ==
  LET cut == SubSeq(s, 1, IF l + 1 < Len(s) THEN l + 1 ELSE Len(s))
      pad == SPad(cut, l)
      n == Len(pad)
      dsc == IF d # None THEN [pad EXCEPT ![n].desc = d] ELSE pad
  IN [dsc EXCEPT ![n].p = Clamp(v)]

(* the reporter thread: every modified level, in order, is reported and applied *)
RECURSIVE Drain(_, _, _)
Drain(t, s, k) ==
  IF k > Len(t) THEN [t |-> t, s |-> s]
  ELSE IF Modified(t[k])
       THEN LET withdesc == t[k].pd # t[k].desc
                t1 == [t EXCEPT ![k].pp = t[k].p, ![k].pd = t[k].desc]
                s1 == Apply(s, t[k].lvl, t[k].p, IF withdesc THEN t[k].desc ELSE None)
            IN Drain(t1, s1, k + 1)
       ELSE Drain(t, s, k + 1)

Step(v, l, d) ==
  /\ Len(hist) < Depth
  /\ LET t1 == SetF(task, v, l, d)
         r == Drain(t1, sched, 1)
     IN /\ task' = r.t /\ sched' = r.s
        /\ hist' = Append(hist, [v |-> v, l |-> l, d |-> d, sched |-> r.s])
Next == \E v \in Values, l \in 0..MaxLevel, d \in Descs : (NestedOnly => l <= Len(task)) /\ Step(v, l, d)
Spec == Init /\ [][Next]_vars

(* ---- what a user of the monitoring interface expects once the reporter is idle *)
View(t) == [k \in 1..Len(t) |-> [desc |-> t[k].desc, p |-> t[k].p]]
Consistent ==
  hist # <<>> =>
    /\ Len(sched) = Len(task)
    /\ \A k \in 1..Len(task) : sched[k].desc = task[k].desc /\ Abs(sched[k].p - Clamp(task[k].p)) <= Threshold
(* weaker, holds for the code as it is: the level last reported and the outer ones are right *)
OuterConsistent ==
  hist # <<>> =>
    /\ Len(sched) >= Len(task)
    /\ \A k \in 1..Len(task) : Abs(sched[k].p - Clamp(task[k].p)) <= Threshold
TypeOK == Len(task) >= 1 /\ Len(task) <= MaxLevel + 1 /\ Len(sched) <= MaxLevel + 1

Emit == Len(hist) = Depth => PrintT(<<"BEH", ToJson(hist)>>)
=============================================================================
