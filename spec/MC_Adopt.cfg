SPECIFICATION Spec
CONSTANT Outcomes = {"ok", "fail", "killed"}
CONSTANT SecondCheck = TRUE
CONSTANT GuardedRead = TRUE
INVARIANT TypeOK
INVARIANT NoRelaunchOfSuccess
INVARIANT NoRelaunchOfRunning
INVARIANT TruthfulDone
INVARIANT TruthfulError
INVARIANT NoCrash
INVARIANT Emit
