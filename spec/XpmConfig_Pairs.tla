--------------------------- MODULE XpmConfig_Pairs ---------------------------
(* Edit-neighbour pairs of real configuration graphs (C02 / C03): for two graphs one small edit apart,
   both tapped streams must be the specification's Enc, and the identifiers of corresponding nodes are
   equal exactly when their declarative signatures are equal. *)
EXTENDS XpmConfig, Json, IOUtils, TLCExt

VARIABLE tid
Cases == JsonDeserialize(IOEnv.TRACE_FILE)

Check(t) ==
  LET caseA == Cases[t].a
      caseB == Cases[t].b
      graphA == caseA.g
      graphB == caseB.g
      N == DOMAIN caseA.streams \cap DOMAIN caseB.streams
      badenc == {n \in DOMAIN caseA.streams : Canonical(graphA, n) # caseA.streams[n]}
                  \cup {n \in DOMAIN caseB.streams : Canonical(graphB, n) # caseB.streams[n]}
      same == {n \in N : Sig(graphA, n) = Sig(graphB, n)}
      (* C02: equal signatures => equal identifiers *)
      neutral == {n \in same : caseA.ids[n] # caseB.ids[n]}
      (* C03: different signatures => different identifiers *)
      collide == {n \in N \ same : caseA.ids[n] = caseB.ids[n]}
  IN /\ PrintT(<<"PAIR", t, Cardinality(same), Cardinality(N)>>)
     /\ IF badenc = {} /\ neutral = {} /\ collide = {} THEN TRUE
        ELSE PrintT(<<"MISMATCH", t, badenc, neutral, collide>>)

Init == tid \in DOMAIN Cases
Next == UNCHANGED tid
Spec == Init /\ [][Next]_tid
AllMatch == Check(tid)
=============================================================================
