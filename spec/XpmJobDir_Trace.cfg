SPECIFICATION TraceSpec
CONSTANT Procs = {"p1", "p2", "p3"}
CONSTANT FixF6 = TRUE
CONSTANT FixF21 = TRUE
CONSTRAINT Progress
POSTCONDITION Accepted
CHECK_DEADLOCK FALSE
