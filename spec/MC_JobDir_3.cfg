SPECIFICATION MCSpec
CONSTANT Procs = {"p1", "p2", "p3"}
CONSTANT FixF6 = TRUE
CONSTANT FixF21 = TRUE
CONSTRAINT ThreeBound
INVARIANT TypeOK
INVARIANT OneBodyAtATime
INVARIANT NoBodyAfterDone
INVARIANT LockHolderAlive
INVARIANT DoneOnlyIfBodyCompleted
INVARIANT HandledSignalInBody
INVARIANT NoPidAfterOwnEnd
CHECK_DEADLOCK FALSE
