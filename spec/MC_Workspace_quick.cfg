SPECIFICATION Spec
CONSTANT Jobs = {"1", "2", "3"}
CONSTANT Xps = {"x", "xy"}
CONSTANT Fails = {"3"}
CONSTANT Depth = 4
CONSTRAINT LevelBound
VIEW View
PROPERTY IndexExact
INVARIANT BackupKept
INVARIANT NoPlanJobOrphaned
PROPERTY OrphansExact
PROPERTY CleanSafe
CHECK_DEADLOCK FALSE
