------------------------------ MODULE MC_Config ------------------------------
(* Identifier caches and sealing as a state machine over small graphs (C01 histories, C14) *)
EXTENDS XpmConfig, Json

CONSTANTS Family, Depth
VARIABLES g, c, hist, g0

vars == <<g, c, hist, g0>>

NodeK(i, child, lst) ==
  [ cls |-> "K",
    vals |-> ("a" :> <<"int", i>>) @@ ("b" :> <<"int", 5>>) @@ ("c" :> child) @@ ("d" :> <<"dict", <<>>>>) @@ ("e" :> <<"none">>)
              @@ ("f" :> <<"none">>) @@ ("g" :> <<"none">>) @@ ("l" :> <<"list", lst>>) @@ ("m" :> <<"int", 0>>) @@ ("o" :> <<"int", 9>>) @@ ("s" :> <<"none">>)
              @@ ("v" :> <<"int", 3>>),
    meta |-> "none", pre |-> <<>>, init |-> <<>>, task |-> "0" ]

Ids == {"1", "2", "3"}
All == Ids \cup {"4"}
(* node 4: a task whose output is its own parameter x = node 1 (T1.task_outputs returns dep(self.x)) *)
TaskNode == [cls |-> "T1", vals |-> ("n" :> <<"int", 0>>) @@ ("x" :> <<"cfg", "1">>), meta |-> "none", pre |-> <<>>, init |-> <<>>, task |-> "0"]
WithTask(gr) == [n \in All |-> IF n = "4" THEN TaskNode ELSE gr[n]]
Ptr == {<<"none">>} \cup {<<"cfg", i>> : i \in Ids}

(* all single-child graphs over three nodes (self loops, 2- and 3-cycles, chains, a node hanging off a cycle) *)
Ptr3 == {[n \in Ids |-> NodeK(IF n = "1" THEN 1 ELSE IF n = "2" THEN 2 ELSE 3, f[n], <<>>)] : f \in [Ids -> Ptr]}
(* node 1 holds the two others in a list; they point anywhere *)
List3 == {[n \in Ids |-> NodeK(IF n = "1" THEN 1 ELSE IF n = "2" THEN 2 ELSE 3, IF n = "1" THEN <<"none">> ELSE f[n],
                               IF n = "1" THEN <<<<"cfg", "2">>, <<"cfg", "3">>>> ELSE <<>>)] : f \in [{"2", "3"} -> Ptr]}

Graphs == {WithTask(gr) : gr \in CASE Family = "ptr3" -> Ptr3 [] Family = "list3" -> List3 [] Family = "all" -> Ptr3 \cup List3}

Init == g \in Graphs /\ c = NoCache(g) /\ hist = <<>> /\ g0 = g

Seal(n) ==
  /\ c' = [c EXCEPT !.sealed = [m \in All |-> c.sealed[m] \/ m \in Reach(g, n)]]
  /\ hist' = Append(hist, <<"seal", n, {m \in All : c.sealed[m] \/ m \in Reach(g, n)}>>)
  /\ UNCHANGED <<g, g0>>

ReqId(n) ==
  LET r == RawId(g, c, n)
  IN /\ c' = IF c.sealed[n] THEN [c EXCEPT !.rawc[n] = <<r>>] ELSE c
     /\ hist' = Append(hist, <<"id", n, r.s>>)
     /\ UNCHANGED <<g, g0>>

(* assignment attempt of the required int and of the child pointer *)
TrySet(n, v) ==
  /\ IF c.sealed[n]
     THEN /\ hist' = Append(hist, <<"set", n, v, "rejected">>) /\ UNCHANGED g
     ELSE /\ hist' = Append(hist, <<"set", n, v, "ok">>)
          /\ g' = [g EXCEPT ![n].vals["c"] = v]
  /\ UNCHANGED <<c, g0>>

(* Task.submit() (dry run): validate and seal everything reachable, compute the job identifier (cached on
   the task), then mark the output (node 1) as produced by the task -- which invalidates its cached identifiers *)
Submit4 ==
  /\ g["4"].task = "0"
  (* domain: the output (node 1) is marked before it, or anything embedding it, was sealed on its own *)
  /\ \A n \in Ids : "1" \in Reach(g, n) => ~c.sealed[n]
  (* domain: experimaestro cannot submit a task whose parameter graph is cyclic (unbounded recursion
     in the dependency collection) *)
  /\ \A n \in Reach(g, "4") : n \notin ReachFrom(g, Succ(g, n), Succ(g, n))
  /\ LET c1 == [c EXCEPT !.sealed = [m \in All |-> c.sealed[m] \/ m \in Reach(g, "4")]]
         r == RawId(g, c1, "4")
         g1 == [g EXCEPT !["4"].task = "4", !["1"].task = "4"]
     IN /\ g' = g1
        /\ c' = [c1 EXCEPT !.rawc["4"] = <<r>>]
        /\ hist' = Append(hist, <<"submit", "4", r.s, {m \in All : c1.sealed[m]}>>)
  /\ UNCHANGED g0

Next == \/ Submit4
        \/ \E n \in All : Seal(n) \/ ReqId(n)
        \/ \E n \in Ids : \E v \in {<<"none">>, <<"cfg", "1">>} : TrySet(n, v)
Spec == Init /\ [][Next]_vars

(* C01: whatever was sealed or requested before, the identifier returned now is the canonical one *)
(* (the identifier of a submitted task is the one computed at submission, before its outputs are marked) *)
Submitted == g["4"].task = "4"
OnlyJobCache == [sealed |-> [m \in All |-> m = "4" /\ Submitted], rawc |-> [m \in All |-> IF m = "4" /\ Submitted THEN c.rawc["4"] ELSE <<>>]]
IdIsCanonical == \A n \in All : (n = "4" /\ Submitted) \/ RawId(g, c, n).s = RawTop(g, OnlyJobCache, n).s
(* C14: sealing is transitive; a sealed configuration never changes *)
SealClosed == \A n \in All : c.sealed[n] => \A m \in Reach(g, n) : c.sealed[m]
SealedFrozen == [][\A n \in All : c.sealed[n] => (g'[n].vals = g[n].vals /\ g'[n].meta = g[n].meta /\ g'[n].pre = g[n].pre)]_vars

LevelBound == TLCGet("level") <= Depth
View == <<g, c>>

(* export of the behaviours for the replay into real objects (B1) *)
Emit == Len(hist) = Depth => PrintT(<<"BEH", ToJson([g |-> g0, hist |-> hist])>>)
=============================================================================
