SPECIFICATION Spec
CONSTANT Part = "filter"
INVARIANT FilterLaws
INVARIANT FilterEmit
CHECK_DEADLOCK FALSE
