SPECIFICATION FairSpec
CONSTANT Family = "live"
PROPERTY EventuallyAllFinal
CHECK_DEADLOCK TRUE
