SPECIFICATION Spec
CONSTANT Jobs = {"1", "2"}
INVARIANT TypeOK
INVARIANT MovedMeansRewritten
INVARIANT LinkOnlyWhileOld
PROPERTY CompleteRunIsFix
PROPERTY RecoversFromAnyCrash
PROPERTY ListOnlyReads
CHECK_DEADLOCK FALSE
