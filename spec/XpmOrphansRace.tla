--------------------------- MODULE XpmOrphansRace ---------------------------
(***************************************************************************)
(* `orphans` reads the index (xp/<name>/jobs) and the backup index           *)
(* (xp/<name>/jobs.bak) of an experiment while, in another process, a new    *)
(* run of that experiment starts and moves the links one by one from the     *)
(* index to the backup index (experiment.__enter__).  Neither directory      *)
(* listing is atomic: each link is looked for once per phase, at any moment  *)
(* of that phase.  What is referenced throughout must be seen.               *)
(*   Order = <<"idx", "bak">> is what cli/__init__.py does (chain of the two *)
(*   globs); the other order misses a link moved between the two phases.     *)
(***************************************************************************)
EXTENDS Naturals, Sequences, FiniteSets, TLC

CONSTANTS Links, Order
VARIABLES loc,     \* link -> "idx" | "bak"
          seen,    \* links the command has found
          phase,   \* 1, 2: position in Order; 3: both listings done
          todo     \* links not yet looked for in the current phase
vars == <<loc, seen, phase, todo>>
IdxThenBak == <<"idx", "bak">>
BakThenIdx == <<"bak", "idx">>

Init == loc = [l \in Links |-> "idx"] /\ seen = {} /\ phase = 1 /\ todo = Links

(* the command looks for link l in the directory of the current phase *)
Examine(l) ==
  /\ phase \in {1, 2} /\ l \in todo
  /\ todo' = todo \ {l}
  /\ seen' = IF loc[l] = Order[phase] THEN seen \cup {l} ELSE seen
  /\ UNCHANGED <<loc, phase>>
NextPhase == phase \in {1, 2} /\ todo = {} /\ phase' = phase + 1 /\ todo' = (IF phase = 1 THEN Links ELSE {}) /\ UNCHANGED <<loc, seen>>
(* the starting run renames one more link *)
Move(l) == loc[l] = "idx" /\ loc' = [loc EXCEPT ![l] = "bak"] /\ UNCHANGED <<seen, phase, todo>>

Next == (\E l \in Links : Examine(l) \/ Move(l)) \/ NextPhase
Spec == Init /\ [][Next]_vars

(* C19 / C16: every job referenced throughout the command is found, so `--clean` never deletes it *)
AllReferencedSeen == phase = 3 => seen = Links
=============================================================================
