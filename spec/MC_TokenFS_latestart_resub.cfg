SPECIFICATION MCSpec
CONSTANT Variant = "latestart_resub"
CONSTANT StrictEvents = TRUE
CONSTANT FixF5 = TRUE
CONSTANT FixF26 = TRUE
CONSTANT FixF27 = TRUE
CONSTANT FixF28 = TRUE
CONSTANT FixF23 = TRUE
CONSTANT AddFirst = TRUE
CONSTANT Procs = {"p1", "p2"}
CONSTANT Jobs = {"a", "b"}
CONSTRAINT ResubBound
INVARIANT TypeOK
INVARIANT Capacity
INVARIANT RunningHoldFile
INVARIANT RunningUnderCapacity
INVARIANT MutualExclusion
INVARIANT ObserversSurvive
INVARIANT Informed
INVARIANT NoOrphanEmptyFile
PROPERTY ReclaimOnlyAfterEnd
CHECK_DEADLOCK FALSE
