SPECIFICATION MCSpec
CONSTANT Variant = "three"
CONSTANT StrictEvents = TRUE
CONSTANT FixF5 = FALSE
CONSTANT FixF26 = TRUE
CONSTANT FixF27 = TRUE
CONSTANT FixF28 = TRUE
CONSTANT FixF23 = TRUE
CONSTANT AddFirst = TRUE
CONSTANT Procs = {"p1", "p2"}
CONSTANT Jobs = {"a", "b", "c"}
CONSTRAINT OneDeath
INVARIANT TypeOK
INVARIANT Capacity
INVARIANT MutualExclusion
INVARIANT ObserversSurvive
INVARIANT Informed
INVARIANT NoOrphanEmptyFile
PROPERTY ReclaimOnlyAfterEnd
CHECK_DEADLOCK FALSE
