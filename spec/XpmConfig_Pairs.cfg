SPECIFICATION Spec
CONSTANT FixF1 = TRUE
CONSTANT FixF18 = TRUE
INVARIANT AllMatch
CHECK_DEADLOCK FALSE
