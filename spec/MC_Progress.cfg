SPECIFICATION Spec
CONSTANT MaxLevel = 2
CONSTANT Values = {0, 500, 1000}
CONSTANT Descs = {"none", "a", "b"}
CONSTANT Depth = 3
CONSTANT NestedOnly = FALSE
CONSTANT PadOwnNumber = FALSE
CONSTANT ShrinkReported = FALSE
INVARIANT TypeOK
INVARIANT Emit
CHECK_DEADLOCK FALSE
