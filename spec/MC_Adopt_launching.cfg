SPECIFICATION Spec
CONSTANT Outcomes = {"ok", "fail", "killed"}
CONSTANT SecondCheck = TRUE
CONSTANT Launching = TRUE
CONSTANT GuardedRead = TRUE
INVARIANT TypeOK
PROPERTY NoRelaunchOfSuccess
PROPERTY NoRelaunchOfRunning
INVARIANT TruthfulDone
INVARIANT TruthfulError
INVARIANT NoCrash
INVARIANT Emit
