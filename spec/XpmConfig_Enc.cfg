SPECIFICATION Spec
CONSTANT FixF1 = TRUE
INVARIANT AllMatch
CHECK_DEADLOCK FALSE
