-------------------------- MODULE XpmDeprecatedSteps --------------------------
(***************************************************************************)
(* The repair of XpmDeprecated.tla at the grain of its file-system          *)
(* operations (tools/jobs.py fix_deprecated), so that a crash of the repair  *)
(* process (power loss, kill, disk full) can happen between any two of them. *)
(*                                                                           *)
(*   loc[j]    where the real job directory is: "old" (former id) / "new"    *)
(*   link[j]   what is at the new path while the directory is old:           *)
(*             "none" / "ok" (symbolic link to the old directory) / "dangling"*)
(*   params[j] content of params.json: "old" (as written by the former       *)
(*             class), "new" (rewritten for the replacement).  There is no   *)
(*             third value: the code writes params.json.tmp and renames it,  *)
(*             so a torn params.json is not a state of this specification    *)
(*             and a recorded one is rejected.                                *)
(*   tmp[j]    params.json.tmp exists (in whatever state)                     *)
(*   run       the repair in progress (None when no repair process exists)    *)
(*   start     <<loc, link>> when the repair in progress began                *)
(***************************************************************************)
EXTENDS Naturals, Sequences, FiniteSets, TLC

CONSTANTS Jobs
VARIABLES loc, link, params, tmp, run, start
vars == <<loc, link, params, tmp, run, start>>
fs == <<loc, link, params, tmp>>
None == [fix |-> FALSE, cleanup |-> FALSE, phase |-> "none", todo |-> {}, cur |-> "-", pc |-> "-"]

TypeOK ==
  /\ loc \in [Jobs -> {"old", "new"}]
  /\ link \in [Jobs -> {"none", "ok", "dangling"}]
  /\ params \in [Jobs -> {"old", "new"}]
  /\ tmp \in [Jobs -> BOOLEAN]

InitWith(k) ==
  /\ loc = [j \in Jobs |-> "old"] /\ link = k
  /\ params = [j \in Jobs |-> "old"] /\ tmp = [j \in Jobs |-> FALSE]
  /\ run = None /\ start = <<loc, link>>
Init == \E k \in [Jobs -> {"none", "ok", "dangling"}] : InitWith(k)

Begin(f, c) ==
  /\ run = None
  /\ run' = [fix |-> f, cleanup |-> c, phase |-> IF c THEN "unlink" ELSE "repair", todo |-> Jobs, cur |-> "-", pc |-> "-"]
  /\ start' = <<loc, link>>
  /\ UNCHANGED fs

(* jobs are visited in directory order, which the specification leaves open *)
Pick(j) ==
  /\ run.phase \in {"unlink", "repair"} /\ run.cur = "-" /\ j \in run.todo
  /\ run' = [run EXCEPT !.cur = j, !.todo = @ \ {j}, !.pc = IF run.phase = "unlink" THEN "unlink" ELSE "top"]
  /\ UNCHANGED <<fs, start>>

NextPhase ==
  /\ run.phase = "unlink" /\ run.cur = "-" /\ run.todo = {}
  /\ run' = [run EXCEPT !.phase = "repair", !.todo = Jobs]
  /\ UNCHANGED <<fs, start>>

End ==
  /\ run.phase = "repair" /\ run.cur = "-" /\ run.todo = {}
  /\ run' = None
  /\ UNCHANGED <<fs, start>>

Done == [run EXCEPT !.cur = "-", !.pc = "-"]
Goto(pc) == [run EXCEPT !.pc = pc]

(* one statement of the repair of the current job; each changes at most one thing on the disk *)
Step ==
  /\ run.cur # "-"
  /\ LET j == run.cur IN
     CASE run.pc = "unlink" ->        \* first pass of --cleanup: every link that leads to a job directory is removed
            /\ link' = [link EXCEPT ![j] = IF @ = "ok" THEN "none" ELSE @]
            /\ run' = Done /\ UNCHANGED <<loc, params, tmp>>
       [] run.pc = "top" ->
            /\ run' = IF loc[j] = "new" \/ ~run.fix THEN Done ELSE Goto("dangling")
            /\ UNCHANGED fs
       [] run.pc = "dangling" ->
            /\ link' = [link EXCEPT ![j] = IF @ = "dangling" THEN "none" ELSE @]
            /\ run' = Goto("exists") /\ UNCHANGED <<loc, params, tmp>>
       [] run.pc = "exists" ->
            /\ run' = IF link[j] = "ok" THEN Done ELSE IF run.cleanup THEN Goto("wtmp") ELSE Goto("symlink")
            /\ UNCHANGED fs
       [] run.pc = "wtmp" ->
            /\ tmp' = [tmp EXCEPT ![j] = TRUE]
            /\ run' = Goto("replace") /\ UNCHANGED <<loc, link, params>>
       [] run.pc = "replace" ->
            /\ params' = [params EXCEPT ![j] = "new"] /\ tmp' = [tmp EXCEPT ![j] = FALSE]
            /\ run' = Goto("rename") /\ UNCHANGED <<loc, link>>
       [] run.pc = "rename" ->
            /\ loc' = [loc EXCEPT ![j] = "new"]
            /\ run' = Done /\ UNCHANGED <<link, params, tmp>>
       [] run.pc = "symlink" ->
            /\ link' = [link EXCEPT ![j] = "ok"]
            /\ run' = Done /\ UNCHANGED <<loc, params, tmp>>
  /\ UNCHANGED start

(* the repair process disappears between two statements *)
Crash == run # None /\ run' = None /\ UNCHANGED <<fs, start>>

Next == (\E f, c \in BOOLEAN : Begin(f, c)) \/ (\E j \in Jobs : Pick(j)) \/ NextPhase \/ End \/ Step \/ Crash
Spec == Init /\ [][Next]_vars

(* ------------------------------------------------------------------ *)
Reachable(j) == loc[j] = "new" \/ link[j] = "ok"

(* the atomic repair of XpmDeprecated.tla *)
FixOne(l, k, fix, cleanup) ==
  LET k1 == IF cleanup /\ k = "ok" THEN "none" ELSE k
  IN IF l = "new" THEN <<l, "none">>
     ELSE IF ~fix THEN <<l, k1>>
     ELSE LET k2 == IF k1 = "dangling" THEN "none" ELSE k1
          IN IF k2 = "ok" THEN <<l, k2>>
             ELSE IF cleanup THEN <<"new", "none">>
             ELSE <<l, "ok">>

(* refinement: a repair that runs to its end has done exactly the atomic repair of its starting state
   -- whatever crashed repairs left behind before it started *)
CompleteRunIsFix ==
  [][End => \A j \in Jobs : <<loc[j], link[j]>> = FixOne(start[1][j], start[2][j], run.fix, run.cleanup)]_vars
(* C20: from every state a crash can leave, one complete repair makes every former job reachable again *)
RecoversFromAnyCrash == [][(End /\ run.fix) => \A j \in Jobs : Reachable(j)]_vars
(* the directory under the new identifier always holds parameters written for the new identifier *)
MovedMeansRewritten == \A j \in Jobs : loc[j] = "new" => params[j] = "new" /\ ~tmp[j]
(* a directory is never at both places, a link never shadows a moved directory *)
LinkOnlyWhileOld == \A j \in Jobs : loc[j] = "new" => link[j] = "none"
(* without --fix nothing but links to existing jobs (under --cleanup) is touched *)
ListOnlyReads == [][(Step /\ ~run.fix) => (loc' = loc /\ params' = params /\ tmp' = tmp
                                          /\ \A j \in Jobs : link'[j] # link[j] => (run.cleanup /\ link[j] = "ok"))]_vars
=============================================================================
