----------------------- MODULE XpmDeprecatedSteps_Trace -----------------------
(***************************************************************************)
(* Histories of real repairs interrupted by an injected fault (the repair   *)
(* process is killed before the k-th statement of tools/jobs.py, or a write  *)
(* fails half-way) followed by a complete repair: the observed trees must be *)
(* states of XpmDeprecatedSteps; the statements between two observations are *)
(* silent steps inferred by TLC.                                              *)
(***************************************************************************)
EXTENDS XpmDeprecatedSteps, Json, IOUtils, TLCExt

VARIABLES tid, l
Traces == JsonDeserialize(IOEnv.TRACE_FILE)
TheTrace == Traces[tid].ev
Ev == TheTrace[l]
tvars == <<vars, tid, l>>

IsEvent(a) == l <= Len(TheTrace) /\ Ev.e = a /\ l' = l + 1 /\ UNCHANGED tid
Observed(st) == \A j \in Jobs : /\ loc[j] = st[j].loc /\ link[j] = st[j].link
                                /\ params[j] = st[j].params /\ tmp[j] = st[j].tmp

Logged ==
  \/ IsEvent("begin") /\ Begin(Ev.fix, Ev.cleanup)
  \/ IsEvent("crashed") /\ Crash /\ Observed(Ev.st)
  \/ IsEvent("end") /\ End /\ Observed(Ev.st)
Silent == /\ l <= Len(TheTrace) /\ UNCHANGED <<tid, l>>
          /\ ((\E j \in Jobs : Pick(j)) \/ NextPhase \/ Step)
TraceNext == Logged \/ Silent
TraceInit == /\ tid \in DOMAIN Traces
             /\ InitWith([j \in Jobs |-> Traces[tid].ev[1].link[j]])
             /\ l = 2
TraceSpec == TraceInit /\ [][TraceNext]_tvars

ToSet(q) == {q[x] : x \in DOMAIN q}
InvList == << <<"MovedMeansRewritten", MovedMeansRewritten>>, <<"LinkOnlyWhileOld", LinkOnlyWhileOld>> >>
BrokenInvs == {c[1] : c \in {x \in ToSet(InvList) : ~x[2]}}
Progress ==
  /\ (TLCGet(tid) < l - 1 => TLCSet(tid, l - 1))
  /\ (BrokenInvs # {} => PrintT(<<"INV", tid, l - 1, BrokenInvs>>))
ASSUME \A t \in DOMAIN Traces : TLCSet(t, 0)
Accepted == \A t \in DOMAIN Traces : \/ TLCGet(t) = Len(Traces[t].ev)
                                     \/ PrintT(<<"REJECTED", t, TLCGet(t), Len(Traces[t].ev)>>)
=============================================================================
