SPECIFICATION Spec
CONSTANT Outcomes = {"ok", "fail", "killed"}
CONSTANT SecondCheck = TRUE
CONSTANT Launching = TRUE
CONSTANT GuardedRead = FALSE
INVARIANT NoCrash
