SPECIFICATION MCSpec
CONSTANT Variant = "latestart"
CONSTANT StrictEvents = TRUE
CONSTANT FixF5 = TRUE
CONSTANT FixF26 = TRUE
CONSTANT FixF27 = TRUE
CONSTANT FixF28 = TRUE
CONSTANT FixF23 = TRUE
CONSTANT AddFirst = TRUE
CONSTANT Procs = {"p1", "p2", "p3"}
CONSTANT Jobs = {"a", "b"}
CONSTRAINT NoDeath26
INVARIANT TypeOK
INVARIANT Capacity
INVARIANT MutualExclusion
INVARIANT ObserversSurvive
INVARIANT Informed
INVARIANT NoOrphanEmptyFile
PROPERTY ReclaimOnlyAfterEnd
CHECK_DEADLOCK FALSE
