---------------------------- MODULE MC_ConfigF18 ----------------------------
(* A holder of a configuration-valued default (class DH: child = K2(a=1), K2 has a generated path): the identifier
   of the holder must not depend on whether its untouched copy of the default has been sealed.  Holds with
   FixF18 = TRUE (repaired Config.__eq__), violated with FALSE (pinned: the child is skipped before sealing, hashed
   afterwards). *)
EXTENDS XpmConfig

VARIABLE a     \* the value of the copy's parameter a (1 = untouched)
Node(cls, vals) == [cls |-> cls, vals |-> vals, meta |-> "none", pre |-> <<>>, init |-> <<>>, task |-> "0"]
G(x) == [n \in {"1", "1d"} |->
           IF n = "1" THEN Node("DH", [child |-> <<"cfg", "1d">>, n |-> <<"int", 0>>])
           ELSE Node("K2", [a |-> <<"int", x>>, c |-> <<"none">>, v |-> <<"int", 4>>])]
Sealed(g, S) == [sealed |-> [n \in Nodes(g) |-> n \in S], rawc |-> [n \in Nodes(g) |-> <<>>]]

Init == a \in {1, 2}
Next == UNCHANGED a
Spec == Init /\ [][Next]_a

IdStableUnderSeal == RawTop(G(a), NoCache(G(a)), "1").s = RawTop(G(a), Sealed(G(a), {"1", "1d"}), "1").s
(* an untouched copy is not part of the identifier, an edited one is *)
DefaultSkipped == (a = 1) <=> (RawTop(G(a), NoCache(G(a)), "1").s = <<0>> \o TypeNameBytes["DH"])
=============================================================================
