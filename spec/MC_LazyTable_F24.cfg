SPECIFICATION Spec
CONSTANT Threads = {"t1", "t2"}
CONSTANT Keys = {"local", "slurm"}
CONSTANT PublishComplete = FALSE
INVARIANT AlwaysFound
