SPECIFICATION Spec
CONSTANT Jobs = {"1", "2", "3"}
CONSTANT Xps = {"x", "y"}
CONSTANT Fails = {"3"}
CONSTANT Depth = 6
INVARIANT Emit
CHECK_DEADLOCK FALSE
