--------------------------- MODULE XpmConfig_Enc ---------------------------
(* Code -> specification: the byte stream tapped from the real HashComputer for every node of a
   batch of configuration graphs must equal the specification's Enc (cache-free, top-level request),
   the reachable set and the collected pre-task set must coincide as well. *)
EXTENDS XpmConfig, Json, IOUtils, TLCExt

VARIABLE tid
Cases == JsonDeserialize(IOEnv.TRACE_FILE)
ToSet(q) == {q[x] : x \in DOMAIN q}

Check(t) ==
  LET cs == Cases[t]
      g == cs.g
      (* after sealing from a root: what is hashed again follows the same rules given what is sealed now *)
      SealedCache(r) == [sealed |-> [m \in Nodes(g) |-> m \in ToSet(cs.sealed[r])], rawc |-> [m \in Nodes(g) |-> <<>>]]
      badafter == UNION {{n \in DOMAIN cs.sstreams[r] : RawTop(g, SealedCache(r), n).s # cs.sstreams[r][n]} : r \in DOMAIN cs.sstreams}
      bad == {n \in DOMAIN cs.streams : Canonical(g, n) # cs.streams[n]} \cup badafter
      badloops == {n \in DOMAIN cs.loops : RawTop(g, NoCache(g), n).loops # cs.loops[n]}
      badpre == {n \in DOMAIN cs.pre : PreSet(g, n) # ToSet(cs.pre[n])}
      (* sealing a root seals everything reachable from it (C14) *)
      badseal == {r \in DOMAIN cs.sealed : ~(Reach(g, r) \subseteq ToSet(cs.sealed[r]))}
      (* generated paths (C17): first-visit position of the Sealer walk *)
      badgen == {r \in DOMAIN cs.gen :
                   LET w == GenWalk(g, [n \in Nodes(g) |-> FALSE], r)
                   IN \E n \in DOMAIN cs.gen[r] : GenPath(w.keys[n], g[n].cls) # cs.gen[r][n]}
      (* definition list (C12): post-order, each object once *)
      baddefs == {r \in DOMAIN cs.defs : DefsOrder(g, r) # cs.defs[r]}
      (* runtime objects (C13): which nodes are instantiated, which pre-tasks run *)
      badinst == {r \in DOMAIN cs.inst : Cardinality(InstNodes(g, r)) # cs.inst[r].nodes \/ Cardinality(InstPre(g, r)) # cs.inst[r].pre}
  IN IF bad = {} /\ badpre = {} /\ badloops = {} /\ badseal = {} /\ badgen = {} /\ baddefs = {} /\ badinst = {} THEN TRUE
     ELSE PrintT(<<"MISMATCH", t, bad, badpre, badloops, badseal, badgen, baddefs, badinst>>)

Init == tid \in DOMAIN Cases
Next == UNCHANGED tid
Spec == Init /\ [][Next]_tid
AllMatch == Check(tid)
=============================================================================
